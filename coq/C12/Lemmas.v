(* C12/Lemmas.v — proofs about C12/Model.v *)
From Coq Require Import ZArith List Bool Lia ZifyBool.
From NV Require Import Base.Bytes C12.Str C12.Model C12.Tables.
Import ListNotations.
Open Scope Z_scope.

(* ------------------------------------------------------------------ well-formed tables *)
Definition ieq (a b : str) : bool := str_eqb (lower a) (lower b).

Fixpoint pairwise_not (R : str -> str -> bool) (l : list str) : bool :=
  match l with
  | [] => true
  | x :: r => negb (existsb (R x) r) && pairwise_not R r
  end.

Definition exts_of (k : klass) : list str := map snd (ftypes k).

(* what the name handling needs of a class's tables *)
Definition wf_names (k : klass) : bool :=
  negb (match ftypes k with [] => true | _ => false end)
  && pairwise_not str_eqb (map fst (ftypes k))          (* member names distinct *)
  && forallb dottedl (exts_of k)                        (* ".ext", lower-case alphanumerics *)
  && pairwise_not str_eqb (exts_of k)                   (* member extensions distinct *)
  && forallb dotted (csuf k)                            (* ".sfx", alphanumerics, any case *)
  && pairwise_not ieq (csuf k)                          (* suffixes distinct up to case *)
  && forallb (fun e => negb (existsb (ieq e) (csuf k))) (exts_of k).   (* no extension is a suffix *)

(* what filespec_to_file_map / load need on top of that *)
Definition wf_class (k : klass) : bool :=
  wf_names k
  && (fkind k <? 2)
  && forallb (fun v => existsb (str_eqb v) (exts_of k) || ((fkind k =? 1) && str_eqb v MGZ)) (vexts k)
  && (negb (fkind k =? 1)
      || ((match csuf k with [] => true | _ => false end) && negb (sniffs k)
          && negb (existsb (str_eqb MGZ) (exts_of k)))).

(* every class of all_image_classes is well formed, except that AFNIImage's
   filespec_to_file_map is outside the model (kind 2; its name tables are well formed) *)
Definition wf_table (ks : list klass) : bool :=
  forallb (fun k => wf_class k || ((fkind k =? 2) && wf_names k && negb (sniffs k))) ks.

Lemma all_classes_wf : wf_table all_classes = true.
Proof. vm_compute; reflexivity. Qed.

Lemma opener_keys_wf : forallb dotted opener_keys = true /\ forallb dotted image_opener_keys = true.
Proof. split; vm_compute; reflexivity. Qed.

(* ------------------------------------------------------------------ small list facts *)
Lemma pairwise_not_NoDup l : pairwise_not str_eqb l = true -> NoDup l.
Proof.
  induction l as [|x l IH]; simpl; intros H; constructor.
  - apply andb_true_iff in H as [H _]. apply negb_true_iff in H.
    intros Hin. assert (existsb (str_eqb x) l = true); [|congruence].
    apply existsb_exists. exists x. split; [assumption|apply str_eqb_refl].
  - apply IH. now apply andb_true_iff in H as [_ H].
Qed.

Lemma pairwise_not_spec R l : pairwise_not R l = true ->
  forall a b r1 r2, l = r1 ++ a :: r2 -> In b r2 -> R a b = false.
Proof.
  induction l as [|x l IH]; intros H a b r1 r2 E Hb.
  - destruct r1; discriminate.
  - simpl in H. apply andb_true_iff in H as [H1 H2]. apply negb_true_iff in H1.
    destruct r1 as [|y r1]; simpl in E; inversion E; subst.
    + destruct (R a b) eqn:ER; [|reflexivity].
      assert (existsb (R a) r2 = true); [|congruence]. apply existsb_exists. now exists b.
    + eapply IH; eauto.
Qed.

Lemma NoDup_map_snd_inj {A B} (l : list (A * B)) a b :
  NoDup (map snd l) -> In a l -> In b l -> snd a = snd b -> a = b.
Proof.
  induction l as [|x l IH]; simpl; intros Hn Ha Hb E; [contradiction|].
  inversion Hn as [|? ? Hx Hn']; subst.
  destruct Ha as [<-|Ha], Hb as [<-|Hb]; auto.
  - exfalso. apply Hx. rewrite E. now apply in_map.
  - exfalso. apply Hx. rewrite <- E. now apply in_map.
Qed.

Lemma find_first {A} (f : A -> bool) l x :
  In x l -> f x = true -> (forall y, In y l -> f y = true -> y = x) -> find f l = Some x.
Proof.
  induction l as [|a l IH]; simpl; intros Hin Hf Hu; [contradiction|].
  destruct (f a) eqn:Fa.
  - f_equal. apply Hu; auto.
  - destruct Hin as [->|Hin]; [congruence|]. apply IH; auto.
Qed.

Lemma find_none_iff {A} (f : A -> bool) l : (forall y, In y l -> f y = false) -> find f l = None.
Proof.
  induction l as [|a l IH]; simpl; intros H; [reflexivity|].
  rewrite (H a) by now left. apply IH. intros y Hy. apply H. now right.
Qed.

Lemma map_last {A B} (f : A -> B) w a b : map f w = a ++ [b] -> exists w0 c, w = w0 ++ [c] /\ f c = b /\ map f w0 = a.
Proof.
  intros H. destruct (@exists_last _ w) as (w0 & c & ->).
  { intros ->. destruct a; discriminate. }
  rewrite map_app in H. simpl in H. apply app_inj_tail in H as [H1 H2]. now exists w0, c.
Qed.

(* ------------------------------------------------------------------ generic facts (any name) *)
Lemma strip_suffix_app mc sufs fn a ign :
  strip_suffix mc sufs fn = (a, ign) -> a ++ opt_str ign = fn.
Proof.
  induction sufs as [|s r IH]; simpl; intros H.
  - inversion H; subst. apply app_nil_r.
  - destruct (ends mc fn s); [|now apply IH].
    inversion H; subst. simpl. apply py_head_tail_neg.
Qed.

Lemma strip_suffix_inv mc sufs fn a ign :
  strip_suffix mc sufs fn = (a, Some ign) ->
  exists t, In t sufs /\ ends mc fn t = true /\ a = py_head_neg (length t) fn /\ ign = py_tail_neg (length t) fn.
Proof.
  induction sufs as [|s r IH]; simpl; intros H; [discriminate|].
  destruct (ends mc fn s) eqn:E.
  - inversion H; subst. exists s. auto.
  - destruct (IH H) as (t & Ht & H'). exists t. auto.
Qed.

Lemma match_type_inv mc tys fn n found rest :
  match_type mc tys fn = Some (n, found, rest) ->
  rest ++ found = fn /\ exists te, In (n, te) tys /\ te <> [] /\ ends mc fn te = true.
Proof.
  induction tys as [|[name te] r IH]; simpl; intros H; [discriminate|].
  destruct (nonempty te && ends mc fn te) eqn:E.
  - inversion H; subst. apply andb_true_iff in E as [E1 E2]. split; [apply py_head_tail_neg|].
    exists te. split; [now left|]. split; [destruct te; [discriminate|congruence]|assumption].
  - destruct (IH H) as (H1 & te' & Hin & H2). split; [assumption|]. exists te'. split; [now right|assumption].
Qed.

Lemma parse_filename_app mc tys sufs fn f e ign g :
  parse_filename mc tys sufs fn = (f, e, ign, g) -> f ++ e ++ opt_str ign = fn.
Proof.
  unfold parse_filename. destruct (strip_suffix mc sufs fn) as [fn1 ig] eqn:Es.
  apply strip_suffix_app in Es.
  destruct (match_type mc tys fn1) as [[[n found] rest]|] eqn:Em.
  - intros H; inversion H; subst. apply match_type_inv in Em as [Em _].
    now rewrite app_assoc, Em.
  - destruct (os_splitext fn1) as [r x] eqn:Eo. intros H; inversion H; subst.
    pose proof (os_splitext_app fn1) as Ho. rewrite Eo in Ho. simpl in Ho.
    now rewrite app_assoc, Ho.
Qed.

Lemma parse_filename_guess mc tys sufs fn f e ign g :
  parse_filename mc tys sufs fn = (f, e, ign, Some g) -> exists te, In (g, te) tys.
Proof.
  unfold parse_filename. destruct (strip_suffix mc sufs fn) as [fn1 ig].
  destruct (match_type mc tys fn1) as [[[n found] rest]|] eqn:Em.
  - intros H; inversion H; subst. apply match_type_inv in Em as (_ & te & Hin & _). now exists te.
  - destruct (os_splitext fn1). discriminate.
Qed.

(* dictionaries *)
Lemma dict_get_set d k v k' :
  dict_get (dict_set d k v) k' = if str_eqb k k' then Some v else dict_get d k'.
Proof.
  induction d as [|[k0 v0] d IH]; simpl.
  - reflexivity.
  - destruct (str_eqb k0 k) eqn:E0; simpl.
    + apply str_eqb_eq in E0. subst k0. destruct (str_eqb k k'); reflexivity.
    + rewrite IH. destruct (str_eqb k0 k') eqn:E1; [|reflexivity].
      apply str_eqb_eq in E1. subst k0. rewrite (str_eqb_sym k k'), E0. reflexivity.
Qed.

Lemma fold_get T F X ign g dr tys : forall d n V,
  (forall e, In (n, e) tys -> tf_value T F X ign g dr (n, e) = V) ->
  dict_get (fold_left (tf_step T F X ign g dr) tys d) n =
  if existsb (fun p => str_eqb (fst p) n) tys then Some V else dict_get d n.
Proof.
  induction tys as [|[n1 e1] r IH]; intros d n V HV; simpl; [reflexivity|].
  rewrite (IH _ n V) by (intros e He; apply HV; now right).
  destruct (existsb _ r); [now rewrite orb_true_r|]. rewrite orb_false_r.
  unfold tf_step. rewrite dict_get_set. cbn [fst].
  destruct (str_eqb n1 n) eqn:E; [|reflexivity].
  apply str_eqb_eq in E. subst n1. f_equal. apply HV. now left.
Qed.

Lemma existsb_fst tys (n e : str) : In (n, e) tys -> existsb (fun p : str * str => str_eqb (fst p) n) tys = true.
Proof. intros H. apply existsb_exists. exists (n, e). split; [assumption|apply str_eqb_refl]. Qed.

(* every member gets a file name; a member named more than once keeps the last *)
Lemma fold_get_some T F X ign g dr tys : forall d n,
  existsb (fun p : str * str => str_eqb (fst p) n) tys = true ->
  exists v, dict_get (fold_left (tf_step T F X ign g dr) tys d) n = Some v.
Proof.
  induction tys as [|[n1 e1] r IH]; intros d n H; [discriminate|]. simpl in *.
  destruct (existsb (fun p : str * str => str_eqb (fst p) n) r) eqn:Ex.
  - now apply IH.
  - rewrite orb_false_r in H. apply str_eqb_eq in H. subst n1. eexists.
    rewrite (fold_get _ _ _ _ _ _ r _ n []).
    + rewrite Ex. unfold tf_step. rewrite dict_get_set. cbn [fst]. now rewrite str_eqb_refl.
    + intros e0 He0. apply (existsb_fst r n e0) in He0. congruence.
Qed.

(* ------------------------------------------------------------------ types_filenames, any name *)
Lemma restringify_id s c : c <> DOT -> restringify (s ++ [c]) = s ++ [c].
Proof.
  intros Hc. unfold restringify. destruct (s ++ [c]) eqn:E; [destruct s; discriminate|]. rewrite <- E.
  unfold endswith. rewrite rev_app_distr. cbn [rev app prefixb].
  destruct (DOT =? c) eqn:E1; [apply Z.eqb_eq in E1; congruence|reflexivity].
Qed.

Definition norm_template (t : str) : str := restringify (removesuffix_dot t).

Lemma norm_template_id s c : c <> DOT -> norm_template (s ++ [c]) = s ++ [c].
Proof. intros H. unfold norm_template. rewrite removesuffix_dot_id by assumption. now apply restringify_id. Qed.

Lemma truthy_opt_str ign : (if truthy_opt ign then opt_str ign else []) = opt_str ign.
Proof. destruct ign as [[|c s]|]; reflexivity. Qed.

(* enforce_extensions=True (the only way nibabel calls it): the outcome in terms of the parse *)
Lemma types_filenames_enforce mc tys sufs t :
  types_filenames true mc tys sufs t =
  let '(f, e, ign, g) := parse_filename mc tys sufs (norm_template t) in
  if is_none g && nonempty e then Err ErrWrongExt
  else if is_none g && truthy_opt ign then Err ErrConfusing
  else Ok (fold_left (tf_step (removesuffix_dot t) f e ign g None) tys []).
Proof.
  unfold types_filenames, norm_template.
  destruct (parse_filename mc tys sufs (restringify (removesuffix_dot t))) as [[[f e] ign] g].
  cbn [andb negb]. reflexivity.
Qed.

(* whenever a member is guessed, its entry is the name given (minus a final dot) *)
Lemma tf_guessed mc tys sufs t f e ign g :
  parse_filename mc tys sufs (norm_template t) = (f, e, ign, Some g) ->
  exists tf, types_filenames true mc tys sufs t = Ok tf /\ dict_get tf g = Some (norm_template t).
Proof.
  intros Hp. rewrite types_filenames_enforce, Hp. cbn [is_none andb].
  eexists. split; [reflexivity|].
  destruct (parse_filename_guess _ _ _ _ _ _ _ _ Hp) as [te Hin].
  rewrite (fold_get _ _ _ _ _ _ tys [] g (norm_template t)).
  - now rewrite (existsb_fst tys g te Hin).
  - intros e0 _. unfold tf_value. cbn [opt_eqb]. rewrite str_eqb_refl.
    apply parse_filename_app in Hp. rewrite <- Hp.
    destruct (truthy_opt ign) eqn:Et.
    + now rewrite <- app_assoc.
    + rewrite <- (truthy_opt_str ign), Et, !app_nil_r. reflexivity.
Qed.

(* totality: a refusal, or a file name for every member *)
Lemma tf_total mc tys sufs t :
  (exists e, types_filenames true mc tys sufs t = Err e /\ (e = ErrWrongExt \/ e = ErrConfusing)) \/
  (exists tf, types_filenames true mc tys sufs t = Ok tf /\
     forall n e, In (n, e) tys -> exists v, dict_get tf n = Some v).
Proof.
  rewrite types_filenames_enforce.
  destruct (parse_filename mc tys sufs (norm_template t)) as [[[f e] ign] g].
  destruct (is_none g && nonempty e); [left; eexists; split; [reflexivity|now left]|].
  destruct (is_none g && truthy_opt ign); [left; eexists; split; [reflexivity|now right]|].
  right. eexists. split; [reflexivity|]. intros n e0 Hin.
  apply fold_get_some. eapply existsb_fst; eauto.
Qed.

(* ------------------------------------------------------------------ names of the shape root ++ ext' ++ suffix' *)
Lemma dottedi_nonempty x : dottedi x = true -> x <> [].
Proof. destruct x; [discriminate|congruence]. Qed.

Lemma strip_suffix_dotted sufs r x :
  forallb dottedi sufs = true -> dottedi x = true ->
  strip_suffix false sufs (r ++ x) =
  if existsb (ieq x) sufs then (r, Some x) else (r ++ x, None).
Proof.
  intros Hs Hx. induction sufs as [|t sufs IH]; simpl; [reflexivity|].
  simpl in Hs. apply andb_true_iff in Hs as [Ht Hs].
  rewrite (iendswith_dotted r x t Hx Ht). fold (ieq x t).
  destruct (ieq x t) eqn:E; simpl.
  - unfold ieq in E. apply str_eqb_eq in E. apply lower_eq_length in E. rewrite <- E.
    destruct (py_neg_app r x (dottedi_nonempty x Hx)) as [-> ->]. reflexivity.
  - now apply IH.
Qed.

Lemma match_type_dotted tys r x :
  forallb dottedi (map snd tys) = true -> dottedi x = true ->
  match_type false tys (r ++ x) =
  match find (fun p => ieq x (snd p)) tys with
  | Some (n, _) => Some (n, x, r)
  | None => None
  end.
Proof.
  intros Hs Hx. induction tys as [|[n te] tys IH]; simpl; [reflexivity|].
  simpl in Hs. apply andb_true_iff in Hs as [Ht Hs].
  rewrite (iendswith_dotted r x te Hx Ht). fold (ieq x te).
  assert (Hne : nonempty te = true) by (destruct te; [discriminate|reflexivity]).
  rewrite Hne. cbn [andb].
  destruct (ieq x te) eqn:E.
  - unfold ieq in E. apply str_eqb_eq in E. apply lower_eq_length in E. rewrite <- E.
    destruct (py_neg_app r x (dottedi_nonempty x Hx)) as [-> ->]. reflexivity.
  - now apply IH.
Qed.

Lemma forallb_weaken {A} (p q : A -> bool) l : (forall x, p x = true -> q x = true) ->
  forallb p l = true -> forallb q l = true.
Proof. intros H. rewrite !forallb_forall. auto. Qed.

(* unpacking wf_names *)
Lemma wf_names_inv k : wf_names k = true ->
  ftypes k <> [] /\ NoDup (map fst (ftypes k)) /\ forallb dottedl (exts_of k) = true /\
  NoDup (exts_of k) /\ forallb dotted (csuf k) = true /\ pairwise_not ieq (csuf k) = true /\
  (forall e s, In e (exts_of k) -> In s (csuf k) -> ieq e s = false).
Proof.
  unfold wf_names. rewrite !andb_true_iff. intros [[[[[[H1 H2] H3] H4] H5] H6] H7].
  repeat split; auto.
  - destruct (ftypes k); [discriminate|congruence].
  - now apply pairwise_not_NoDup.
  - now apply pairwise_not_NoDup.
  - intros e s He Hs. rewrite forallb_forall in H7. specialize (H7 e He). apply negb_true_iff in H7.
    destruct (ieq e s) eqn:E; [|reflexivity].
    assert (existsb (ieq e) (csuf k) = true); [|congruence]. apply existsb_exists. now exists s.
Qed.

Lemma ieq_variant x x' y : lower x' = lower x -> ieq x' y = ieq x y.
Proof. unfold ieq. now intros ->. Qed.

(* the parse of root ++ ext' ++ suffix' *)
Lemma parse_written k root nm e e' s' :
  wf_names k = true -> In (nm, e) (ftypes k) -> lower e' = lower e ->
  (s' = [] \/ exists s, In s (csuf k) /\ lower s' = lower s) ->
  parse_filename false (ftypes k) (csuf k) (root ++ e' ++ s') =
  (root, e', match s' with [] => None | _ => Some s' end, Some nm).
Proof.
  intros Hwf Hin He Hs.
  destruct (wf_names_inv k Hwf) as (_ & _ & Hd & Hnd & Hsd & _ & Hes).
  assert (He_in : In e (exts_of k)) by (apply (in_map snd) in Hin; exact Hin).
  assert (Hde : dottedl e = true) by (rewrite forallb_forall in Hd; auto).
  assert (Hle : lower e = e) by now apply dottedl_lower.
  assert (Hde' : dottedi e' = true).
  { apply (dottedi_variant e e' He). now apply dotted_dottedi, dottedl_dotted. }
  assert (Hsufi : forallb dottedi (csuf k) = true) by (eapply forallb_weaken; [apply dotted_dottedi|assumption]).
  assert (Hexti : forallb dottedi (map snd (ftypes k)) = true).
  { eapply forallb_weaken; [|exact Hd]. intros x Hx. now apply dotted_dottedi, dottedl_dotted. }
  assert (Hfind : find (fun p : str * str => ieq e' (snd p)) (ftypes k) = Some (nm, e)).
  { apply find_first; [assumption| |].
    - cbn [snd]. unfold ieq. rewrite He. apply str_eqb_refl.
    - intros [n2 e2] Hin2 E2. cbn [snd] in E2. unfold ieq in E2. apply str_eqb_eq in E2.
      assert (Hd2 : dottedl e2 = true) by (rewrite forallb_forall in Hd; apply Hd; apply (in_map snd) in Hin2; exact Hin2).
      rewrite He, Hle, (dottedl_lower e2 Hd2) in E2.
      apply (NoDup_map_snd_inj (ftypes k)); auto. }
  unfold parse_filename.
  destruct Hs as [->|(s & Hsin & Hls)].
  - rewrite app_nil_r. rewrite (strip_suffix_dotted _ root e' Hsufi Hde').
    assert (Ex : existsb (ieq e') (csuf k) = false).
    { destruct (existsb (ieq e') (csuf k)) eqn:Ex; [|reflexivity].
      apply existsb_exists in Ex as (t & Ht & Et). rewrite (ieq_variant e e' t He) in Et.
      rewrite (Hes e t He_in Ht) in Et. discriminate. }
    rewrite Ex. rewrite (match_type_dotted _ root e' Hexti Hde'), Hfind. reflexivity.
  - assert (Hds' : dottedi s' = true).
    { apply (dottedi_variant s s' Hls). apply dotted_dottedi. rewrite forallb_forall in Hsd. auto. }
    rewrite app_assoc. rewrite (strip_suffix_dotted _ (root ++ e') s' Hsufi Hds').
    assert (Ex : existsb (ieq s') (csuf k) = true).
    { apply existsb_exists. exists s. split; [assumption|]. unfold ieq. rewrite Hls. apply str_eqb_refl. }
    rewrite Ex. rewrite (match_type_dotted _ root e' Hexti Hde'), Hfind.
    destruct s'; [discriminate|reflexivity].
Qed.

Lemma written_last k root nm e e' s' :
  wf_names k = true -> In (nm, e) (ftypes k) -> lower e' = lower e ->
  (s' = [] \/ exists s, In s (csuf k) /\ lower s' = lower s) ->
  exists a c, root ++ e' ++ s' = a ++ [c] /\ c <> DOT.
Proof.
  intros Hwf Hin He Hs.
  destruct (wf_names_inv k Hwf) as (_ & _ & Hd & _ & Hsd & _ & _).
  assert (Hde' : dottedi e' = true).
  { apply (dottedi_variant e e' He). apply dotted_dottedi, dottedl_dotted.
    rewrite forallb_forall in Hd. apply Hd. apply (in_map snd) in Hin. exact Hin. }
  destruct Hs as [->|(s & Hsin & Hls)].
  - rewrite app_nil_r. destruct (dottedi_last e' Hde') as (a & c & -> & Hc).
    exists (root ++ a), c. now rewrite app_assoc.
  - assert (Hds' : dottedi s' = true).
    { apply (dottedi_variant s s' Hls). apply dotted_dottedi. rewrite forallb_forall in Hsd. auto. }
    destruct (dottedi_last s' Hds') as (a & c & -> & Hc).
    exists (root ++ e' ++ a), c. now rewrite !app_assoc.
Qed.

(* ------------------------------------------------------------------ the named member and the others *)
Definition suffix_ok (k : klass) (s' : str) : Prop :=
  s' = [] \/ exists s, In s (csuf k) /\ lower s' = lower s.

Lemma tf_named_member k root nm e e' s' :
  wf_names k = true -> In (nm, e) (ftypes k) -> lower e' = lower e -> suffix_ok k s' ->
  exists tf, types_filenames true false (ftypes k) (csuf k) (root ++ e' ++ s') = Ok tf
             /\ dict_get tf nm = Some (root ++ e' ++ s').
Proof.
  intros Hwf Hin He Hs.
  destruct (written_last k root nm e e' s' Hwf Hin He Hs) as (a & c & Ea & Hc).
  pose proof (parse_written k root nm e e' s' Hwf Hin He Hs) as Hp.
  assert (Hn : norm_template (root ++ e' ++ s') = root ++ e' ++ s') by (rewrite Ea; now apply norm_template_id).
  rewrite <- Hn in Hp.
  destruct (tf_guessed _ _ _ _ _ _ _ _ Hp) as (tf & Htf & Hg). exists tf. now rewrite Hn in Hg.
Qed.

Lemma NoDup_map_fst_inj {A B} (l : list (A * B)) a b :
  NoDup (map fst l) -> In a l -> In b l -> fst a = fst b -> a = b.
Proof.
  induction l as [|x l IH]; simpl; intros Hn Ha Hb E; [contradiction|].
  inversion Hn as [|? ? Hx Hn']; subst.
  destruct Ha as [<-|Ha], Hb as [<-|Hb]; auto.
  - exfalso. apply Hx. rewrite E. now apply in_map.
  - exfalso. apply Hx. rewrite <- E. now apply in_map.
Qed.

(* the case rule, spelled out: all-upper spelling -> upper-case extension, otherwise the table's *)
Lemma proc_ext_rule e' e2 : e' <> [] -> dottedl e2 = true ->
  proc_ext e' e2 = if str_eqb e' (upper e') then upper e2 else e2.
Proof.
  intros Hn Hd. unfold proc_ext. destruct e' as [|c e']; [congruence|]. cbn [nonempty].
  destruct (str_eqb (c :: e') (upper (c :: e'))); [reflexivity|].
  rewrite (dottedl_lower e2 Hd). now destruct (str_eqb _ _).
Qed.

Lemma tf_other_members k root nm e e' s' nm2 e2 :
  wf_names k = true -> In (nm, e) (ftypes k) -> lower e' = lower e -> suffix_ok k s' ->
  In (nm2, e2) (ftypes k) -> nm2 <> nm ->
  exists tf, types_filenames true false (ftypes k) (csuf k) (root ++ e' ++ s') = Ok tf
             /\ dict_get tf nm2 = Some (root ++ (if str_eqb e' (upper e') then upper e2 else e2) ++ s').
Proof.
  intros Hwf Hin He Hs Hin2 Hne.
  destruct (written_last k root nm e e' s' Hwf Hin He Hs) as (a & c & Ea & Hc).
  pose proof (parse_written k root nm e e' s' Hwf Hin He Hs) as Hp.
  assert (Hn : norm_template (root ++ e' ++ s') = root ++ e' ++ s') by (rewrite Ea; now apply norm_template_id).
  destruct (wf_names_inv k Hwf) as (_ & Hnd & Hd & _ & _ & _ & _).
  assert (Hd2 : dottedl e2 = true) by (rewrite forallb_forall in Hd; apply Hd; apply (in_map snd) in Hin2; exact Hin2).
  assert (He'n : e' <> []).
  { intros ->. apply (in_map snd) in Hin. rewrite forallb_forall in Hd. apply Hd in Hin. cbn [snd] in Hin.
    destruct e; [discriminate|discriminate]. }
  rewrite types_filenames_enforce, Hn, Hp. cbn [is_none andb].
  eexists. split; [reflexivity|].
  rewrite (fold_get _ _ _ _ _ _ (ftypes k) [] nm2 (root ++ (if str_eqb e' (upper e') then upper e2 else e2) ++ s')).
  - now rewrite (existsb_fst _ nm2 e2 Hin2).
  - intros e0 Hin0.
    assert (E0 : (nm2, e0) = (nm2, e2)) by (apply (NoDup_map_fst_inj (ftypes k)); auto).
    inversion E0; subst e0.
    unfold tf_value. cbn [opt_eqb].
    assert (Hf : str_eqb nm2 nm = false) by now apply str_eqb_neq.
    rewrite Hf. assert (Hne2 : nonempty e2 = true) by (destruct e2; [discriminate|reflexivity]).
    rewrite Hne2, (proc_ext_rule e' e2 He'n Hd2).
    destruct s' as [|c0 s0]; cbn [truthy_opt opt_str]; [now rewrite !app_nil_r|now rewrite <- app_assoc].
Qed.

(* ------------------------------------------------------------------ filespec_to_file_map *)
Lemma dottedi_tail x : dottedi x = true ->
  exists t, x = DOT :: t /\ ~ In DOT t /\ all_dots (DOT :: t) = false.
Proof.
  intros H. apply dottedi_inv in H as (t & -> & Hn & Hf). exists t. split; [reflexivity|].
  assert (Nd : ~ In DOT t).
  { intros Hin. rewrite Forall_forall in Hf. apply Hf in Hin. apply is_ialnum_not_dot in Hin. tauto. }
  split; [assumption|]. destruct t as [|c t]; [congruence|]. cbn.
  destruct (Z.eqb_spec c DOT) as [->|]; [|reflexivity]. exfalso. apply Nd. now left.
Qed.

Lemma all_dots_app a b : all_dots (a ++ b) = all_dots a && all_dots b.
Proof. unfold all_dots. apply forallb_app. Qed.

Lemma splitext_addext_written sufs root x o :
  strip_suffix false sufs (root ++ x ++ opt_str o) = (root ++ x, o) -> dottedi x = true ->
  splitext_addext false sufs (root ++ x ++ opt_str o) = (root, x, opt_str o).
Proof.
  intros Hst Hx. unfold splitext_addext. rewrite Hst.
  destruct (dottedi_tail x Hx) as (t & -> & Nd & Had).
  rewrite (rfind_last DOT root t Nd), all_dots_app, Had, andb_false_r.
  assert (H0 : 0 <= zlen root) by (unfold zlen; lia).
  destruct (Z.ltb_spec (zlen root) 0); [lia|]. cbn [orb].
  now rewrite take_app_exact, drop_app_exact.
Qed.

Lemma splitext_addext_nosuf root x : dottedi x = true -> splitext_addext false [] (root ++ x) = (root, x, []).
Proof.
  intros Hx. pose proof (splitext_addext_written [] root x None) as H. cbn [opt_str] in H.
  rewrite !app_nil_r in H. now apply H.
Qed.


Lemma wf_class_inv k : wf_class k = true ->
  wf_names k = true /\ fkind k < 2 /\
  (forall v, In v (vexts k) -> In v (exts_of k) \/ (fkind k = 1 /\ v = MGZ)) /\
  (fkind k = 1 -> csuf k = [] /\ sniffs k = false /\ ~ In MGZ (exts_of k)).
Proof.
  unfold wf_class. rewrite !andb_true_iff. intros [[[H1 H2] H3] H4].
  split; [assumption|]. split; [lia|]. split.
  - intros v Hv. rewrite forallb_forall in H3. specialize (H3 v Hv).
    apply orb_true_iff in H3 as [H3|H3].
    + left. apply existsb_exists in H3 as (x & Hx & E). apply str_eqb_eq in E. now subst.
    + right. apply andb_true_iff in H3 as [Ha Hb]. apply str_eqb_eq in Hb. split; [lia|assumption].
  - intros Hk. apply orb_true_iff in H4 as [H4|H4]; [lia|].
    rewrite !andb_true_iff in H4. destruct H4 as [[Ha Hb] Hc].
    split; [destruct (csuf k); [reflexivity|discriminate]|]. split; [now apply negb_true_iff in Hb|].
    apply negb_true_iff in Hc. intros Hin.
    assert (existsb (str_eqb MGZ) (exts_of k) = true); [|congruence].
    apply existsb_exists. exists MGZ. split; [assumption|apply str_eqb_refl].
Qed.

Lemma MGZ_dottedl : dottedl MGZ = true.
Proof. reflexivity. Qed.

Lemma filespec_named_member k root nm e e' s' :
  wf_class k = true -> In (nm, e) (ftypes k) -> lower e' = lower e -> suffix_ok k s' ->
  exists fm, filespec_to_file_map k (root ++ e' ++ s') = Ok fm
             /\ dict_get fm nm = Some (root ++ e' ++ s').
Proof.
  intros Hwf Hin He Hs.
  destruct (wf_class_inv k Hwf) as (Hn & Hk & _ & H1).
  unfold filespec_to_file_map.
  destruct (fkind k =? 1) eqn:E1; cbn [andb]; [|now apply (tf_named_member k root nm e e' s')].
  apply Z.eqb_eq in E1. destruct (H1 E1) as (Hcs & _ & Hmgz).
  assert (Hs0 : s' = []).
  { destruct Hs as [->|(s & Hsin & _)]; [reflexivity|]. rewrite Hcs in Hsin. contradiction. }
  subst s'. rewrite app_nil_r in *.
  destruct (wf_names_inv k Hn) as (_ & _ & Hd & _).
  assert (He_in : In e (exts_of k)) by (apply (in_map snd) in Hin; exact Hin).
  assert (Hde : dottedl e = true) by (rewrite forallb_forall in Hd; auto).
  assert (Hde' : dottedi e' = true).
  { apply (dottedi_variant e e' He). now apply dotted_dottedi, dottedl_dotted. }
  assert (Hx : str_eqb (lower (snd (fst (splitext_addext false [] (root ++ e'))))) MGZ = false).
  { rewrite (splitext_addext_nosuf root e' Hde'). cbn [fst snd]. apply str_eqb_neq.
    rewrite He, (dottedl_lower e Hde). intros ->. contradiction. }
  rewrite Hx. pose proof (tf_named_member k root nm e e' [] Hn Hin He (or_introl eq_refl)) as Ht.
  now rewrite app_nil_r in Ht.
Qed.

Lemma filespec_mgz k root m' :
  fkind k = 1 -> lower m' = MGZ ->
  filespec_to_file_map k (root ++ m') = Ok [(IMAGE, root ++ m')].
Proof.
  intros Hk Hm. unfold filespec_to_file_map.
  assert (Hd : dottedi m' = true) by (apply (dottedi_variant MGZ m'); [exact Hm|reflexivity]).
  rewrite Hk, (splitext_addext_nosuf root m' Hd). cbn [fst snd Z.eqb Pos.eqb andb].
  rewrite Hm. now rewrite str_eqb_refl.
Qed.

(* ------------------------------------------------------------------ load: a class that accepts the extension accepts the name *)
Lemma iendswith_last w t : iendswith w t = true -> dottedi t = true ->
  exists w0 c, w = w0 ++ [c] /\ c <> DOT.
Proof.
  intros H Ht. unfold iendswith in H. apply endswith_spec in H as [r H].
  assert (Hl : dottedi (lower t) = true) by (apply (dottedi_variant t); [apply lower_idem|assumption]).
  destruct (dottedi_last _ Hl) as (a & c0 & Ea & Hc0).
  rewrite Ea, app_assoc in H. unfold lower in H. apply map_last in H as (w0 & c & -> & Hc & _).
  exists w0, c. split; [reflexivity|]. intros ->. apply Hc0. rewrite <- Hc. reflexivity.
Qed.

Lemma ext_valid_inv k fn : wf_class k = true -> ext_valid k fn = true ->
  exists root ext o, strip_suffix false (csuf k) fn = (root ++ ext, o)
    /\ splitext_addext false (csuf k) fn = (root, ext, opt_str o)
    /\ In (lower ext) (vexts k) /\ dottedi ext = true.
Proof.
  intros Hwf Hv. destruct (wf_class_inv k Hwf) as (Hn & _ & Hve & _).
  destruct (wf_names_inv k Hn) as (_ & _ & Hd & _).
  unfold ext_valid in Hv. unfold splitext_addext in *.
  destruct (strip_suffix false (csuf k) fn) as [fn1 o] eqn:Est.
  assert (Hvd : forall v, In v (vexts k) -> dottedl v = true).
  { intros v Hin. destruct (Hve v Hin) as [H|[_ ->]]; [|reflexivity]. rewrite forallb_forall in Hd. auto. }
  destruct ((rfind DOT fn1 <? 0) || all_dots fn1).
  - apply existsb_exists in Hv as (v & Hin & E). apply str_eqb_eq in E. cbn in E. subst v.
    apply Hvd in Hin. discriminate.
  - apply existsb_exists in Hv as (v & Hin & E). apply str_eqb_eq in E.
    exists (take (rfind DOT fn1) fn1), (drop (rfind DOT fn1) fn1), o.
    unfold take at 1, drop at 1. rewrite firstn_skipn. repeat split; try reflexivity.
    + now rewrite E.
    + apply (dottedi_variant v); [rewrite E; symmetry; apply dottedl_lower; auto|].
      apply dotted_dottedi, dottedl_dotted; auto.
Qed.

Lemma tf_of_valid k fn root ext o :
  wf_names k = true -> strip_suffix false (csuf k) fn = (root ++ ext, o) ->
  dottedi ext = true -> In (lower ext) (exts_of k) ->
  exists tf n, types_filenames true false (ftypes k) (csuf k) fn = Ok tf /\ dict_get tf n = Some fn.
Proof.
  intros Hn Hst Hde Hin.
  destruct (wf_names_inv k Hn) as (_ & _ & Hd & _ & Hsd & _ & _).
  assert (Hexti : forallb dottedi (map snd (ftypes k)) = true).
  { eapply forallb_weaken; [|exact Hd]. intros x Hx. now apply dotted_dottedi, dottedl_dotted. }
  (* the name does not end in a dot *)
  assert (Hlast : exists a c, fn = a ++ [c] /\ c <> DOT).
  { pose proof (strip_suffix_app _ _ _ _ _ Hst) as Hfn. destruct o as [ig|].
    - apply strip_suffix_inv in Hst as (t & Ht & He & _). cbn [ends] in He.
      apply (iendswith_last fn t He). apply dotted_dottedi. rewrite forallb_forall in Hsd. auto.
    - cbn [opt_str] in Hfn. rewrite app_nil_r in Hfn. subst fn.
      destruct (dottedi_last ext Hde) as (a & c & -> & Hc). exists (root ++ a), c. now rewrite app_assoc. }
  destruct Hlast as (a & c & Ea & Hc).
  assert (Hnt : norm_template fn = fn) by (rewrite Ea; now apply norm_template_id).
  (* some member extension matches *)
  assert (Hf : exists n te, find (fun p : str * str => ieq ext (snd p)) (ftypes k) = Some (n, te)).
  { destruct (find (fun p : str * str => ieq ext (snd p)) (ftypes k)) as [[n te]|] eqn:Ef; [now exists n, te|].
    exfalso. unfold exts_of in Hin. apply in_map_iff in Hin as ([n v] & Ev & Hin). cbn [snd] in Ev.
    pose proof (find_none _ _ Ef _ Hin) as Hno. cbn [snd] in Hno. unfold ieq in Hno.
    rewrite Ev, lower_idem, str_eqb_refl in Hno. discriminate. }
  destruct Hf as (n & te & Hf).
  assert (Hp : parse_filename false (ftypes k) (csuf k) (norm_template fn) = (root, ext, o, Some n)).
  { rewrite Hnt. unfold parse_filename. rewrite Hst, (match_type_dotted _ root ext Hexti Hde), Hf. reflexivity. }
  destruct (tf_guessed _ _ _ _ _ _ _ _ Hp) as (tf & Htf & Hg).
  exists tf, n. now rewrite Hnt in Hg.
Qed.

Lemma ext_valid_accepts k fn :
  wf_class k = true -> ext_valid k fn = true ->
  exists fm n, filespec_to_file_map k fn = Ok fm /\ dict_get fm n = Some fn.
Proof.
  intros Hwf Hv.
  destruct (ext_valid_inv k fn Hwf Hv) as (root & ext & o & Hst & Hsa & Hin & Hde).
  destruct (wf_class_inv k Hwf) as (Hn & _ & Hve & H1).
  unfold filespec_to_file_map.
  destruct ((fkind k =? 1) && str_eqb (lower (snd (fst (splitext_addext false [] fn)))) MGZ) eqn:Eb.
  - exists [(IMAGE, fn)], IMAGE. split; reflexivity.
  - destruct (Hve _ Hin) as [Hx|[Hk Hm]]; [now apply (tf_of_valid k fn root ext o)|].
    exfalso. destruct (H1 Hk) as (Hcs & _). rewrite Hcs in Hsa.
    rewrite Hk, Hsa in Eb. cbn [fst snd Z.eqb Pos.eqb andb] in Eb. rewrite Hm, str_eqb_refl in Eb. discriminate.
Qed.

(* _sniff_meta_for never raises TypesFilenamesError on a name whose extension was accepted *)
Lemma path_maybe_image_total k fn b :
  (sniffs k = false \/ wf_class k = true) -> exists r, path_maybe_image k fn b = Ok r.
Proof.
  intros H. unfold path_maybe_image.
  destruct (ext_valid k fn) eqn:Ev; cbn [negb]; [|now eexists].
  destruct (sniffs k) eqn:Es; cbn [negb]; [|now eexists].
  destruct H as [H|Hwf]; [discriminate|].
  destruct (ext_valid_inv k fn Hwf Ev) as (root & ext & o & Hst & Hsa & Hin & Hde).
  destruct (wf_class_inv k Hwf) as (Hn & _ & Hve & H1).
  assert (Hx : In (lower ext) (exts_of k)).
  { destruct (Hve _ Hin) as [Hx|[Hk _]]; [assumption|]. destruct (H1 Hk) as (_ & Hs & _). congruence. }
  destruct (tf_of_valid k fn root ext o Hn Hst Hde Hx) as (tf & n & Htf & _).
  unfold sniff_name. rewrite Htf. now eexists.
Qed.

Lemma path_maybe_image_true k fn b : path_maybe_image k fn b = Ok true -> ext_valid k fn = true.
Proof.
  unfold path_maybe_image. destruct (ext_valid k fn); cbn [negb]; [reflexivity|discriminate].
Qed.

Definition table_ok (ks : list klass) : Prop := forall k, In k ks -> sniffs k = false \/ wf_class k = true.

(* the class loop: it stops at or before any class that accepts the name, never raises, and
   the class it picks accepts the extension *)
Lemma load_class_finds ks : forall oracle fn i n k,
  table_ok ks -> nth_error ks n = Some k ->
  path_maybe_image k fn (nth n oracle false) = Ok true ->
  exists j kj, load_class ks oracle fn i = Ok (Some (i + j)%nat) /\ (j <= n)%nat
               /\ nth_error ks j = Some kj /\ ext_valid kj fn = true.
Proof.
  induction ks as [|k0 ks IH]; intros oracle fn i n k Hok Hn Hp; [destruct n; discriminate|].
  cbn [load_class].
  destruct (path_maybe_image_total k0 fn (hd false oracle) (Hok k0 (or_introl eq_refl))) as [r Hr].
  rewrite Hr. destruct r.
  - exists 0%nat, k0. rewrite Nat.add_0_r. repeat split; [lia|now apply (path_maybe_image_true k0 fn (hd false oracle))].
  - destruct n as [|n].
    + cbn in Hn. inversion Hn; subst k0. destruct oracle; cbn in *; congruence.
    + cbn [nth_error] in Hn.
      assert (Hp' : path_maybe_image k fn (nth n (tl oracle) false) = Ok true) by (destruct oracle; [destruct n|]; exact Hp).
      destruct (IH (tl oracle) fn (S i) n k (fun k' H' => Hok k' (or_intror H')) Hn Hp') as (j & kj & Hl & Hj & Hnj & Hv).
      exists (S j), kj. rewrite Nat.add_succ_r. repeat split; [exact Hl|lia|exact Hnj|exact Hv].
Qed.

Lemma load_class_sound ks : forall oracle fn i j,
  load_class ks oracle fn i = Ok (Some j) ->
  exists kj, (i <= j)%nat /\ nth_error ks (j - i) = Some kj /\ ext_valid kj fn = true.
Proof.
  induction ks as [|k0 ks IH]; intros oracle fn i j H; cbn [load_class] in H; [discriminate|].
  destruct (path_maybe_image k0 fn (hd false oracle)) as [[|]|] eqn:Hp; [| |discriminate].
  - inversion H; subst. exists k0. rewrite Nat.sub_diag. repeat split; [lia|now apply (path_maybe_image_true k0 fn (hd false oracle))].
  - destruct (IH _ _ _ _ H) as (kj & Hle & Hn & Hv). exists kj. repeat split; [lia| |exact Hv].
    replace (j - i)%nat with (S (j - S i)) by lia. exact Hn.
Qed.

Lemma load_class_total ks : forall oracle fn i, table_ok ks -> exists r, load_class ks oracle fn i = Ok r.
Proof.
  induction ks as [|k0 ks IH]; intros oracle fn i Hok; cbn [load_class]; [now eexists|].
  destruct (path_maybe_image_total k0 fn (hd false oracle) (Hok k0 (or_introl eq_refl))) as [r Hr].
  rewrite Hr. destruct r; [now eexists|]. apply IH. intros k' H'. apply Hok. now right.
Qed.

(* ------------------------------------------------------------------ written names are accepted by their class *)
Lemma strip_suffix_written k root e e' s' :
  wf_class k = true -> In e (vexts k) -> lower e' = lower e -> suffix_ok k s' ->
  dottedi e' = true /\
  strip_suffix false (csuf k) (root ++ e' ++ s') = (root ++ e', match s' with [] => None | _ => Some s' end).
Proof.
  intros Hwf Hin He Hs.
  destruct (wf_class_inv k Hwf) as (Hn & _ & Hve & H1).
  destruct (wf_names_inv k Hn) as (_ & _ & Hd & _ & Hsd & _ & Hes).
  assert (Hsufi : forallb dottedi (csuf k) = true) by (eapply forallb_weaken; [apply dotted_dottedi|assumption]).
  assert (Hde : dottedl e = true).
  { destruct (Hve e Hin) as [H|[_ ->]]; [|reflexivity]. rewrite forallb_forall in Hd. auto. }
  assert (Hde' : dottedi e' = true) by (apply (dottedi_variant e e' He); now apply dotted_dottedi, dottedl_dotted).
  split; [assumption|].
  destruct Hs as [->|(s & Hsin & Hls)].
  - rewrite app_nil_r, (strip_suffix_dotted _ root e' Hsufi Hde').
    assert (Ex : existsb (ieq e') (csuf k) = false).
    { destruct (Hve e Hin) as [Hx|[Hk _]].
      - destruct (existsb (ieq e') (csuf k)) eqn:Ex; [|reflexivity].
        apply existsb_exists in Ex as (t & Ht & Et). rewrite (ieq_variant e e' t He), (Hes e t Hx Ht) in Et. discriminate.
      - destruct (H1 Hk) as (-> & _). reflexivity. }
    now rewrite Ex.
  - assert (Hds' : dottedi s' = true).
    { apply (dottedi_variant s s' Hls). apply dotted_dottedi. rewrite forallb_forall in Hsd. auto. }
    rewrite app_assoc, (strip_suffix_dotted _ (root ++ e') s' Hsufi Hds').
    assert (Ex : existsb (ieq s') (csuf k) = true).
    { apply existsb_exists. exists s. split; [assumption|]. unfold ieq. rewrite Hls. apply str_eqb_refl. }
    rewrite Ex. destruct s'; [discriminate|reflexivity].
Qed.

Lemma ext_valid_written k root e e' s' :
  wf_class k = true -> In e (vexts k) -> lower e' = lower e -> suffix_ok k s' ->
  ext_valid k (root ++ e' ++ s') = true.
Proof.
  intros Hwf Hin He Hs.
  destruct (strip_suffix_written k root e e' s' Hwf Hin He Hs) as (Hde' & Hst).
  destruct (wf_class_inv k Hwf) as (Hn & _ & Hve & _).
  destruct (wf_names_inv k Hn) as (_ & _ & Hd & _).
  assert (Hle : lower e = e).
  { apply dottedl_lower. destruct (Hve e Hin) as [H|[_ ->]]; [|reflexivity]. rewrite forallb_forall in Hd. auto. }
  unfold ext_valid.
  set (o := match s' with [] => None | _ => Some s' end) in *.
  assert (Eo : s' = opt_str o) by (destruct s'; reflexivity).
  rewrite Eo in Hst |- *. rewrite (splitext_addext_written _ root e' o Hst Hde').
  apply existsb_exists. exists e. split; [assumption|]. rewrite He, Hle. apply str_eqb_refl.
Qed.

Lemma path_maybe_image_written k fn :
  wf_class k = true -> ext_valid k fn = true -> path_maybe_image k fn true = Ok true.
Proof.
  intros Hwf Hv. destruct (path_maybe_image_total k fn true (or_intror Hwf)) as [r Hr].
  rewrite Hr. unfold path_maybe_image in Hr. rewrite Hv in Hr. cbn [negb] in Hr.
  destruct (sniffs k); cbn [negb] in Hr; [|congruence].
  destruct (sniff_name k fn); congruence.
Qed.

(* the theorem about load *)
Lemma load_finds_class ks oracle n k root e e' s' :
  table_ok ks -> nth_error ks n = Some k -> wf_class k = true ->
  In e (vexts k) -> lower e' = lower e -> suffix_ok k s' ->
  nth n oracle false = true ->
  exists j kj, load_class ks oracle (root ++ e' ++ s') 0 = Ok (Some j) /\ (j <= n)%nat
    /\ nth_error ks j = Some kj /\ ext_valid kj (root ++ e' ++ s') = true
    /\ (wf_class kj = true ->
        exists fm nm, filespec_to_file_map kj (root ++ e' ++ s') = Ok fm
                      /\ dict_get fm nm = Some (root ++ e' ++ s')).
Proof.
  intros Hok Hn Hwf Hin He Hs Hor.
  pose proof (ext_valid_written k root e e' s' Hwf Hin He Hs) as Hv.
  pose proof (path_maybe_image_written k _ Hwf Hv) as Hp. rewrite <- Hor in Hp at 1.
  destruct (load_class_finds ks oracle _ 0 n k Hok Hn Hp) as (j & kj & Hl & Hj & Hnj & Hvj).
  exists j, kj. repeat split; auto.
  intros Hwfj. now apply ext_valid_accepts.
Qed.

(* ------------------------------------------------------------------ Opener *)
Lemma opener_index_suffix keys root x y : dottedi x = true -> dottedi y = true ->
  opener_index keys (root ++ x ++ y) = find_index (fun key => ieq key y) keys 0.
Proof.
  intros Hx Hy. unfold opener_index. now rewrite app_assoc, (os_splitext_two root x y Hx Hy).
Qed.

Lemma find_index_none {A} (f : A -> bool) l : forall i, (forall x, In x l -> f x = false) -> find_index f l i = None.
Proof.
  induction l as [|a l IH]; intros i H; cbn; [reflexivity|].
  rewrite (H a) by now left. apply IH. intros x Hx. apply H. now right.
Qed.

(* ------------------------------------------------------------------ serialisation routes *)
Section RoutesProofs.
  Variable Img : Type.
  Variable serialize : Img -> list Z.
  Variable compress decompress : option nat -> list Z -> list Z.
  Variable keys : list str.
  Hypothesis codec : forall o b, decompress o (compress o b) = b.

  Lemma routes_equal k img name fs fs' :
    to_filename Img serialize compress keys k img name fs = Ok (Some fs') ->
    exists key fname,
      filespec_to_file_map k name = Ok [(key, fname)]
      /\ fs' = (fname, compress (opener_index keys fname) (serialize img)) :: fs
      /\ read_file decompress keys fs' fname = Some (to_bytes Img serialize img)
      /\ to_stream Img serialize img = to_bytes Img serialize img.
  Proof.
    unfold to_filename. destruct (filespec_to_file_map k name) as [fm|] eqn:E; [|discriminate].
    destruct fm as [|[key fname] [|? ?]]; try discriminate.
    intros H. inversion H; subst. exists key, fname. repeat split.
    unfold read_file. cbn [fs_get]. rewrite str_eqb_refl, codec. reflexivity.
  Qed.

  (* for a name spelled root ++ ext' ++ suffix' the file written is that very name *)
  Lemma routes_named k img root nm e e' s' fs :
    wf_class k = true -> ftypes k = [(nm, e)] -> lower e' = lower e -> suffix_ok k s' ->
    exists fs', to_filename Img serialize compress keys k img (root ++ e' ++ s') fs = Ok (Some fs')
      /\ read_file decompress keys fs' (root ++ e' ++ s') = Some (to_bytes Img serialize img).
  Proof.
    intros Hwf Hft He Hs.
    assert (Hin : In (nm, e) (ftypes k)) by (rewrite Hft; now left).
    destruct (filespec_named_member k root nm e e' s' Hwf Hin He Hs) as (fm & Hfm & Hg).
    assert (Hsingle : exists key, fm = [(key, root ++ e' ++ s')]).
    { unfold filespec_to_file_map in Hfm.
      destruct ((fkind k =? 1) && _) in Hfm.
      - inversion Hfm; subst. now eexists.
      - rewrite types_filenames_enforce, Hft in Hfm.
        destruct (parse_filename _ _ _ _) as [[[f x] ign] g]. destruct (_ && _); [discriminate|].
        destruct (_ && _); [discriminate|]. inversion Hfm; subst fm.
        unfold tf_step in *. cbn [fold_left dict_set fst] in *. cbn [dict_get] in Hg.
        rewrite str_eqb_refl in Hg. exists nm. do 2 f_equal. congruence. }
    destruct Hsingle as [key ->].
    eexists. unfold to_filename. rewrite Hfm. split; [reflexivity|].
    unfold read_file. cbn [fs_get]. rewrite str_eqb_refl, codec. reflexivity.
  Qed.
End RoutesProofs.

Lemma wf_table_ok ks : wf_table ks = true -> table_ok ks.
Proof.
  unfold wf_table, table_ok. rewrite forallb_forall. intros H k Hin. specialize (H k Hin).
  apply orb_true_iff in H as [H|H]; [now right|]. left.
  rewrite !andb_true_iff in H. destruct H as [_ H]. now apply negb_true_iff in H.
Qed.


(* what remains of the dot-file corner: the file map keeps the name ".mgz", but Opener still asks
   posixpath.splitext for the extension, finds none, and opens the file without gzip *)
Lemma opener_dotfile_refuted :
  exists k fn, In k all_classes /\ fkind k = 1
    /\ filespec_to_file_map k fn = Ok [(IMAGE, fn)] /\ lower fn = MGZ
    /\ opener_index image_opener_keys fn = None
    /\ opener_index image_opener_keys (100 :: fn) = Some 3%nat.          (* "d.mgz": the gzip opener *)
Proof.
  exists k_MGHImage, MGZ. repeat split; try (vm_compute; reflexivity). vm_compute. tauto.
Qed.

(* ------------------------------------------------------------------ save(): the conversion ladder sees the extension through lower() only *)
Definition save_suffix_ok (sufs : list str) (e' s' : str) : Prop :=
  (s' = [] /\ existsb (ieq e') sufs = false) \/ (exists s, In s sufs /\ lower s' = lower s).

Lemma save_splitext sufs root e' s' :
  forallb dotted sufs = true -> dottedi e' = true -> save_suffix_ok sufs e' s' ->
  splitext_addext false sufs (root ++ e' ++ s') = (root, e', s').
Proof.
  intros Hs He Hok.
  assert (Hsi : forallb dottedi sufs = true) by (eapply forallb_weaken; [apply dotted_dottedi|assumption]).
  destruct Hok as [[-> Hex]|(s & Hin & Hl)].
  - pose proof (splitext_addext_written sufs root e' None) as H. cbn [opt_str] in H. rewrite !app_nil_r in *.
    apply H; [|assumption]. now rewrite (strip_suffix_dotted sufs root e' Hsi He), Hex.
  - assert (Hds : dottedi s' = true).
    { apply (dottedi_variant s s' Hl). apply dotted_dottedi. rewrite forallb_forall in Hs. auto. }
    pose proof (splitext_addext_written sufs root e' (Some s')) as H. cbn [opt_str] in H.
    apply H; [|assumption]. rewrite app_assoc, (strip_suffix_dotted sufs (root ++ e') s' Hsi Hds).
    assert (Ex : existsb (ieq s') sufs = true).
    { apply existsb_exists. exists s. split; [assumption|]. unfold ieq. rewrite Hl. apply str_eqb_refl. }
    now rewrite Ex.
Qed.

Lemma save_case_independent ks sufs k root e1 e2 s1 s2 conv :
  forallb dotted sufs = true -> dottedi e1 = true -> lower e2 = lower e1 ->
  save_suffix_ok sufs e1 s1 -> save_suffix_ok sufs e2 s2 ->
  is_ok (filespec_to_file_map k (root ++ e1 ++ s1)) = is_ok (filespec_to_file_map k (root ++ e2 ++ s2)) ->
  save_class ks sufs k (root ++ e1 ++ s1) conv = save_class ks sufs k (root ++ e2 ++ s2) conv.
Proof.
  intros Hs He1 Hl Hok1 Hok2 Hacc. unfold save_class. rewrite Hacc.
  destruct (is_ok (filespec_to_file_map k (root ++ e2 ++ s2))); [reflexivity|].
  assert (He2 : dottedi e2 = true) by (apply (dottedi_variant e1 e2 Hl He1)).
  rewrite (save_splitext sufs root e1 s1 Hs He1 Hok1), (save_splitext sufs root e2 s2 Hs He2 Hok2).
  now rewrite Hl.
Qed.

(* the two-member NIfTI rungs, spelled out: whatever the case of the extension *)
Lemma save_ladder_nifti ks k lext conv :
  (str_eqb lext X_IMG || str_eqb lext X_HDR) = true ->
  (kname k = N1I -> save_ladder ks k lext conv = find_class ks N1P)
  /\ (kname k = N2I -> save_ladder ks k lext conv = find_class ks N2P).
Proof.
  intros Hp. unfold save_ladder. rewrite Hp. split; intros ->; cbn; reflexivity.
Qed.

Lemma save_suffixes_wf : forallb dotted save_suffixes = true.
Proof. vm_compute; reflexivity. Qed.

(* ------------------------------------------------------------------ load(): the class loop on the header bytes *)
(* the value of path_maybe_image when it does not raise *)
Lemma path_maybe_image_value k fn b :
  (sniffs k = false \/ wf_class k = true) ->
  path_maybe_image k fn b = Ok (ext_valid k fn && (negb (sniffs k) || b)).
Proof.
  intros H. destruct (path_maybe_image_total k fn b H) as [r Hr]. rewrite Hr. f_equal.
  unfold path_maybe_image in Hr. destruct (ext_valid k fn); cbn [negb andb] in *; [|congruence].
  destruct (sniffs k); cbn [negb orb] in *; [|congruence].
  destruct (sniff_name k fn); congruence.
Qed.

Lemma load_class_find ks : forall (g : klass -> bool) fn i, table_ok ks ->
  load_class ks (map g ks) fn i =
  Ok (find_index (fun k => ext_valid k fn && (negb (sniffs k) || g k)) ks i).
Proof.
  induction ks as [|k ks IH]; intros g fn i Hok; [reflexivity|].
  cbn [map load_class hd tl find_index].
  rewrite (path_maybe_image_value k fn (g k) (Hok k (or_introl eq_refl))).
  destruct (ext_valid k fn && (negb (sniffs k) || g k)); [reflexivity|].
  apply IH. intros k' H'. apply Hok. now right.
Qed.

(* the extension test on a name root ++ ext' ++ suffix' depends on lower ext', lower suffix' only *)
Definition shape_ok (k : klass) (e' s' : str) : Prop :=
  forallb dotted (csuf k) = true /\ dottedi e' = true /\
  ((s' = [] /\ existsb (ieq e') (csuf k) = false) \/ dottedi s' = true).

Lemma existsb_ieq_lower x l : existsb (ieq x) l = existsb (fun t => str_eqb (lower t) (lower x)) l.
Proof. induction l as [|t l IH]; cbn; [reflexivity|]. rewrite IH. unfold ieq. now rewrite str_eqb_sym. Qed.

Lemma ext_valid_shape k root e' s' : shape_ok k e' s' ->
  ext_valid k (root ++ e' ++ s') = ext_valid_abs k (lower e') (lower s').
Proof.
  intros (Hs & He & Hsuf).
  assert (Hsi : forallb dottedi (csuf k) = true) by (eapply forallb_weaken; [apply dotted_dottedi|assumption]).
  unfold ext_valid, ext_valid_abs, lmem.
  destruct Hsuf as [[-> Hex]|Hds].
  - rewrite (save_splitext (csuf k) root e' [] Hs He (or_introl (conj eq_refl Hex))). reflexivity.
  - destruct (lower s') as [|c ls] eqn:El.
    { destruct s'; [discriminate|discriminate]. }
    rewrite <- El. rewrite <- (existsb_ieq_lower s' (csuf k)).
    destruct (existsb (ieq s') (csuf k)) eqn:Ex.
    + apply existsb_exists in Ex as (t & Ht & E). unfold ieq in E. apply str_eqb_eq in E.
      rewrite (save_splitext (csuf k) root e' s' Hs He (or_intror (ex_intro _ t (conj Ht E)))). reflexivity.
    + (* the suffix is not one of the class's: the last dotted piece is taken for the extension *)
      pose proof (splitext_addext_written (csuf k) (root ++ e') s' None) as H. cbn [opt_str] in H.
      rewrite !app_nil_r, <- app_assoc in H. rewrite H; [reflexivity| |assumption].
      rewrite app_assoc, (strip_suffix_dotted (csuf k) (root ++ e') s' Hsi Hds), Ex. reflexivity.
Qed.


Definition sniff_lens_ok (ks : list klass) : bool :=
  forallb (fun k => (sniff_len k =? 0) || (sniff_len k =? 4) || (sniff_len k =? 348) || (sniff_len k =? 540)) ks.

Lemma len_ok_spec intents sl hb :
  ((sl =? 0) || (sl =? 4) || (sl =? 348) || (sl =? 540)) = true ->
  (sl <=? zlen hb) = len_ok sl (features intents hb).
Proof.
  intros H. unfold len_ok, features. cbn [f4 f348 f540]. pose proof (Zle_0_nat (length hb)) as H0. unfold zlen.
  destruct (Z.eqb_spec sl 0) as [->|]; [apply Z.leb_le; lia|].
  destruct (Z.eqb_spec sl 4) as [->|]; [reflexivity|].
  destruct (Z.eqb_spec sl 348) as [->|]; [reflexivity|].
  destruct (Z.eqb_spec sl 540) as [->|]; [reflexivity|]. discriminate.
Qed.

Lemma find_index_ext_in {A} (f g : A -> bool) l : forall i,
  (forall x, In x l -> f x = g x) -> find_index f l i = find_index g l i.
Proof.
  induction l as [|a l IH]; intros i H; cbn; [reflexivity|].
  rewrite (H a) by now left. destruct (g a); [reflexivity|]. apply IH. intros x Hx. apply H. now right.
Qed.

Lemma load_by_header_predict ks intents root e' s' hb :
  table_ok ks -> sniff_lens_ok ks = true -> (forall k, In k ks -> shape_ok k e' s') ->
  load_by_header ks intents (root ++ e' ++ s') hb
  = Ok (predict ks (lower e') (lower s') (features intents hb)).
Proof.
  intros Hok Hsl Hsh. unfold load_by_header, predict. rewrite load_class_find by assumption. f_equal.
  apply find_index_ext_in. intros k Hk. unfold accepts_abs, sniff_ok.
  rewrite (ext_valid_shape k root e' s' (Hsh k Hk)).
  unfold sniff_lens_ok in Hsl. rewrite forallb_forall in Hsl.
  now rewrite (len_ok_spec intents (sniff_len k) hb (Hsl k Hk)).
Qed.

(* quantification over all feature vectors by evaluation *)
Definition forall_bool (p : bool -> bool) : bool := p true && p false.
Lemma forall_bool_spec p : forall_bool p = true -> forall b, p b = true.
Proof. unfold forall_bool. intros H b. apply andb_true_iff in H as [H1 H2]. now destruct b. Qed.
Definition forall_feat (p : feat -> bool) : bool :=
  forall_bool (fun a => forall_bool (fun b => forall_bool (fun c => forall_bool (fun d => forall_bool (fun e =>
  forall_bool (fun g => forall_bool (fun h => forall_bool (fun i => forall_bool (fun j =>
    p (mkF a b c d e g h i j)))))))))).
Lemma forall_feat_spec p : forall_feat p = true -> forall f, p f = true.
Proof.
  intros H [a b c d e g h i j]. unfold forall_feat in H.
  repeat (match goal with Hx : forall_bool _ = true |- _ => apply forall_bool_spec with (b := _) in Hx end).
  pose proof (forall_bool_spec _ H a) as H1. cbv beta in H1.
  pose proof (forall_bool_spec _ H1 b) as H2. cbv beta in H2.
  pose proof (forall_bool_spec _ H2 c) as H3. cbv beta in H3.
  pose proof (forall_bool_spec _ H3 d) as H4. cbv beta in H4.
  pose proof (forall_bool_spec _ H4 e) as H5. cbv beta in H5.
  pose proof (forall_bool_spec _ H5 g) as H6. cbv beta in H6.
  pose proof (forall_bool_spec _ H6 h) as H7. cbv beta in H7.
  pose proof (forall_bool_spec _ H7 i) as H8. cbv beta in H8.
  exact (forall_bool_spec _ H8 j).
Qed.

(* the class generic load returns for an image written by class number n: that class, except that
   the two classes with the plain Analyze sniffer are shadowed by the SPM2 class before them *)
Definition canon (ks : list klass) (n : nat) (k : klass) : option nat :=
  if skind k =? 4 then find_index (fun k' => skind k' =? 5) ks 0 else Some n.

Definition onat_eqb (a b : option nat) : bool :=
  match a, b with Some x, Some y => Nat.eqb x y | None, None => true | _, _ => false end.
Lemma onat_eqb_eq a b : onat_eqb a b = true -> a = b.
Proof. destruct a, b; cbn; try discriminate; auto. intros H. apply Nat.eqb_eq in H. now subst. Qed.

(* the table check behind the theorem: side conditions of the name analysis for every pair of
   classes, and for every class, valid extension, own suffix and feature vector that satisfies the
   writer's signature the first-match prediction is the canonical class *)
Definition check_load_table (ks : list klass) : bool :=
  sniff_lens_ok ks
  && forallb (fun k => forallb dotted (csuf k) && forallb dottedl (vexts k)) ks
  && forallb (fun k => forallb (fun e => forallb (fun j => negb (existsb (ieq e) (csuf j))) ks) (vexts k)) ks
  && forallb (fun nk =>
       forallb (fun e => forallb (fun ls =>
         forall_feat (fun f => implb (writer_sig (snd nk) f)
                                   (onat_eqb (predict ks e ls f) (canon ks (fst nk) (snd nk)))))
         ([] :: map lower (csuf (snd nk)))) (vexts (snd nk)))
     (combine (seq 0 (length ks)) ks).

Lemma all_classes_load_table : check_load_table all_classes = true.
Proof. vm_compute; reflexivity. Qed.

(* every code of the CIFTI block is accepted by the (regenerated) intent table *)
Lemma cifti_block_covered : forallb (fun c => in_intervals c cifti_intents) (map Z.of_nat (seq 3000 100)) = true.
Proof. vm_compute; reflexivity. Qed.

Lemma nth_error_combine_seq {A} (l : list A) : forall s n x,
  nth_error l n = Some x -> In ((s + n)%nat, x) (combine (seq s (length l)) l).
Proof.
  induction l as [|a l IH]; intros s n x H; [destruct n; discriminate|].
  cbn [length seq combine]. destruct n as [|n]; cbn in H.
  - inversion H; subst. left. f_equal. lia.
  - right. replace (s + S n)%nat with (S s + n)%nat by lia. now apply IH.
Qed.

Lemma load_picks_writer ks intents n k root e e' s' hb :
  table_ok ks -> check_load_table ks = true ->
  nth_error ks n = Some k -> In e (vexts k) -> lower e' = lower e -> suffix_ok k s' ->
  writer_sig k (features intents hb) = true ->
  load_by_header ks intents (root ++ e' ++ s') hb = Ok (canon ks n k).
Proof.
  intros Hok Hchk Hn He Hl Hs Hw.
  unfold check_load_table in Hchk. rewrite !andb_true_iff in Hchk. destruct Hchk as [[[Hsl Hd] Hx] Hp].
  rewrite forallb_forall in Hd, Hx, Hp.
  assert (Hk : In k ks) by (eapply nth_error_In; eauto).
  pose proof (Hd k Hk) as Hdk. apply andb_true_iff in Hdk as [Hdsuf Hdv].
  assert (Hde : dottedl e = true) by (rewrite forallb_forall in Hdv; auto).
  assert (Hle : lower e = e) by now apply dottedl_lower.
  assert (Hde' : dottedi e' = true) by (apply (dottedi_variant e e' Hl); now apply dotted_dottedi, dottedl_dotted).
  (* shape of the name for every class of the table *)
  assert (Hshape : forall j, In j ks -> shape_ok j e' s').
  { intros j Hj. pose proof (Hd j Hj) as Hdj. apply andb_true_iff in Hdj as [Hdj _].
    split; [assumption|]. split; [assumption|].
    destruct Hs as [->|(s & Hsin & Hls)].
    - left. split; [reflexivity|]. pose proof (Hx k Hk) as Hxk. rewrite forallb_forall in Hxk.
      specialize (Hxk e He). rewrite forallb_forall in Hxk. specialize (Hxk j Hj).
      apply negb_true_iff in Hxk. rewrite <- Hxk. clear -Hl. induction (csuf j) as [|t l IH]; cbn; [reflexivity|].
      rewrite IH. f_equal. unfold ieq. now rewrite Hl.
    - right. apply (dottedi_variant s s' Hls). apply dotted_dottedi. rewrite forallb_forall in Hdsuf. auto. }
  rewrite (load_by_header_predict ks intents root e' s' hb Hok Hsl Hshape). f_equal.
  specialize (Hp (n, k) (nth_error_combine_seq ks 0 n k Hn)). cbn [fst snd] in Hp.
  rewrite forallb_forall in Hp. specialize (Hp e He). rewrite forallb_forall in Hp.
  assert (Hls : In (lower s') ([] :: map lower (csuf k))).
  { destruct Hs as [->|(s & Hsin & Hls)]; [now left|]. right. rewrite Hls. now apply in_map. }
  specialize (Hp _ Hls). pose proof (forall_feat_spec _ Hp (features intents hb)) as Hf. cbv beta in Hf.
  rewrite Hw in Hf. cbn [implb] in Hf. rewrite Hl, Hle. now apply onat_eqb_eq.
Qed.

(* the CIFTI part at byte level: an intent code of the block 3000..3099 makes the intent feature true *)
Lemma cifti_intent_feature hb :
  3000 <= dec_s (nifti2_big_endian hb) (take 4 (drop 504 hb)) < 3100 ->
  fcifti (features cifti_intents hb) = true.
Proof.
  intros H. unfold features. cbn [fcifti].
  set (c := dec_s (nifti2_big_endian hb) (take 4 (drop 504 hb))) in *.
  pose proof cifti_block_covered as Hc. rewrite forallb_forall in Hc. apply (Hc c).
  apply in_map_iff. exists (Z.to_nat c). split; [lia|]. apply in_seq. lia.
Qed.

(* per class: the routes theorem instantiated for every single-file class of the generated table *)
Lemma routes_per_class (Img : Type) (serialize : Img -> list Z) (compress decompress : option nat -> list Z -> list Z)
  (keys : list str) :
  (forall o b, decompress o (compress o b) = b) ->
  forall k nm e, In k all_classes -> ftypes k = [(nm, e)] -> fkind k <> 2 ->
  forall img root e' s' fs, lower e' = lower e -> suffix_ok k s' ->
  exists fs', to_filename Img serialize compress keys k img (root ++ e' ++ s') fs = Ok (Some fs')
    /\ read_file decompress keys fs' (root ++ e' ++ s') = Some (to_bytes Img serialize img)
    /\ to_stream Img serialize img = to_bytes Img serialize img.
Proof.
  intros codec k nm e Hin Hft Hk img root e' s' fs He Hs.
  assert (Hwf : wf_class k = true).
  { pose proof all_classes_wf as H. unfold wf_table in H. rewrite forallb_forall in H. specialize (H k Hin).
    apply orb_true_iff in H as [H|H]; [assumption|]. rewrite !andb_true_iff in H. destruct H as [[H _] _]. lia. }
  destruct (routes_named Img serialize compress decompress keys codec k img root nm e e' s' fs Hwf Hft He Hs) as (fs' & H1 & H2).
  exists fs'. repeat split; assumption.
Qed.

Lemma load_picks_writer_all n k root e e' s' hb :
  nth_error all_classes n = Some k -> In e (vexts k) -> lower e' = lower e -> suffix_ok k s' ->
  writer_sig k (features cifti_intents hb) = true ->
  load_by_header all_classes cifti_intents (root ++ e' ++ s') hb = Ok (canon all_classes n k).
Proof. apply load_picks_writer; [apply wf_table_ok, all_classes_wf|apply all_classes_load_table]. Qed.

Lemma analyze_shadowed :
  exists n k, nth_error all_classes n = Some k /\ canon all_classes n k <> Some n
    /\ canon all_classes n k = Some 5%nat /\ nth_error all_classes 5 = Some k_Spm2AnalyzeImage.
Proof. exists 7%nat, k_AnalyzeImage. repeat split; try reflexivity. vm_compute. discriminate. Qed.

(* ------------------------------------------------------------------ to_filename derives the file map from the name alone *)
Lemma to_filename_name_only (Img : Type) (serialize : Img -> list Z) (compress : option nat -> list Z -> list Z)
  (keys : list str) k c m1 m2 name fs :
  to_filename_st Img serialize compress keys k (mkI Img c m1) name fs
  = to_filename_st Img serialize compress keys k (mkI Img c m2) name fs
  /\ forall st' fs', to_filename_st Img serialize compress keys k (mkI Img c m1) name fs = Ok (Some (st', fs')) ->
       filespec_to_file_map k name = Ok (imap Img st')
       /\ exists key fname, imap Img st' = [(key, fname)]
            /\ fs' = (fname, compress (opener_index keys fname) (serialize c)) :: fs.
Proof.
  split; [reflexivity|]. intros st' fs' H. unfold to_filename_st in H. cbn [icontent] in H.
  destruct (filespec_to_file_map k name) as [fm|] eqn:E; [|discriminate].
  unfold to_filename in H. rewrite E in H.
  destruct fm as [|[key fname] [|? ?]]; try discriminate.
  inversion H; subst. cbn [imap]. split; [reflexivity|]. now exists key, fname.
Qed.
