(* C20/Extract.v — extraction of the executable model (ExtrOcamlBasic only; Z stays inductive) *)
Require Extraction. Require ExtrOcamlBasic.
From NV Require Import C20.Model.
Extraction Language OCaml.
Extraction "c20_model.ml" lexsort vol_numbers vol_is_full sorted_slice_indices load.
