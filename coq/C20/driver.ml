(* C20 driver body (after `open C20_model` and drvlib.ml).
   volnos [s,..]                      -> ok [v,..]
   isfull <smax> [s,..]               -> ok [0|1,..] | err slice_range
   lexsort <n> [row]*                 -> ok [i,..]      (row i = the keys of record i, last = primary)
   idx <strict> <smax> <n> REC*       -> ok [i,..] | err slice_range
   load <strict> <permit> <fp> [expd] <smax> <nlab> <n> REC*
        -> ok idx=[..] nsl=<n> nvol=<n> payload=[..] slope=[..] inter=[..] labels=<l0>;<l1>;.. (li = [..] or -)
         | err truncated | err slice_range | err no_volume
   REC = [keys] sl pid rs ri ss [cks] [labs]     (rs ri ss: float64 bit patterns as signed int64) *)
let f_of_z (x : z) : float = Int64.float_of_bits (BigZ.to_int64 (big_of_z x))
let z_of_f (f : float) : z = z_of_big (BigZ.of_int64 (Int64.bits_of_float f))
let fone = z_of_f 1.0
let fdiv a b = z_of_f (f_of_z a /. f_of_z b)
let fmul a b = z_of_f (f_of_z a *. f_of_z b)
let rec recs_of_args n args = if n = 0 then ([], args) else match args with
  | k :: s :: p :: a :: b :: c :: ck :: lb :: r ->
    let (l, r') = recs_of_args (n - 1) r in
    ({ keys = zlist_of_string k; sl = z_of_string s; pid = z_of_string p; rs = z_of_string a;
       ri = z_of_string b; ss = z_of_string c; cks = zlist_of_string ck; labs = zlist_of_string lb } :: l, r')
  | _ -> failwith "bad rec args"
let rec rows_of_args n args = if n = 0 then [] else match args with
  | k :: r -> zlist_of_string k :: rows_of_args (n - 1) r
  | _ -> failwith "bad rows"
let string_of_natlist l = "[" ^ String.concat "," (List.map (fun i -> string_of_int (int_of_nat i)) l) ^ "]"
let string_of_err = function ErrTruncated -> "truncated" | ErrSliceRange -> "slice_range" | ErrNoVolume -> "no_volume"
let handle op args = match op, args with
  | "volnos", [l] -> "ok " ^ string_of_zlist (vol_numbers (zlist_of_string l))
  | "isfull", [m; l] ->
    (match vol_is_full (zlist_of_string l) (z_of_string m) with
     | Some f -> "ok [" ^ String.concat "," (List.map string_of_bool f) ^ "]"
     | None -> "err slice_range")
  | "lexsort", n :: r -> "ok " ^ string_of_natlist (lexsort (rows_of_args (int_of_string n) r))
  | "idx", st :: m :: n :: r ->
    let (l, _) = recs_of_args (int_of_string n) r in
    (match sorted_slice_indices (bool_of_string st) (z_of_string m) l with
     | Some i -> "ok " ^ string_of_natlist i
     | None -> "err slice_range")
  | "load", st :: pt :: fp :: ex :: m :: nl :: n :: r ->
    let (l, _) = recs_of_args (int_of_string n) r in
    (match load fone fdiv fmul (bool_of_string st) (bool_of_string pt) (bool_of_string fp)
             (zlist_of_string ex) (z_of_string m) (nat_of_int (int_of_string nl)) l with
     | Ok (i, o) ->
       "ok idx=" ^ string_of_natlist i ^ " nsl=" ^ string_of_int (int_of_nat o.o_nsl)
       ^ " nvol=" ^ string_of_int (int_of_nat o.o_nvol)
       ^ " payload=" ^ string_of_zlist o.o_payload ^ " slope=" ^ string_of_zlist o.o_slope
       ^ " inter=" ^ string_of_zlist o.o_inter ^ " labels="
       ^ String.concat ";" (List.map (function Some l -> string_of_zlist l | None -> "-") o.o_labels)
     | Err e -> "err " ^ string_of_err e)
  | _ -> "err driver:badop"
let () = run_lines handle
