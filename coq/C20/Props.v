(* C20/Props.v — property theorems only.  Each is closed by `exact <lemma>` and followed by
   Print Assumptions.  Property C20: PAR/REC volumes are assembled by slice labels, not by
   record order.  `fone fdiv fmul` are the float64 constant 1.0 and the NumPy division and
   multiplication kernels on bit patterns (oracles; nothing is assumed about them). *)
From Coq Require Import ZArith List Bool Lia Permutation.
From NV Require Import C20.Model C20.ListPerm C20.Lemmas.
Import ListNotations.
Open Scope Z_scope.

(* strict sorting: for ANY permutation of the records (REC slices permuted alike: a slice
   is represented by the id `pid` its record carries), if the stage-1 key tuples are pairwise
   distinct, then the refusal/acceptance, the shape (n_slices, n_vols), the list of REC slices
   making up the output array, the per-slice slopes and intercepts (dv and fp) and the
   volume labels are identical. *)
Theorem C20_order_independent : forall fone fdiv fmul permit fp expd smax nlab recs recs',
  Permutation recs recs' -> NoDup (map keys recs) ->
  res_obs (load fone fdiv fmul true permit fp expd smax nlab recs)
  = res_obs (load fone fdiv fmul true permit fp expd smax nlab recs').
Proof. exact order_independent. Qed.
Print Assumptions C20_order_independent.

(* the same for strict_sort=False on the order-preserving permutations of the quantifier:
   every record keeps its volume number (= how often its slice number occurred before it) *)
Theorem C20_lax_order_preserving : forall fone fdiv fmul permit fp expd smax nlab recs recs',
  Permutation (combine recs (vol_numbers (map sl recs))) (combine recs' (vol_numbers (map sl recs'))) ->
  res_obs (load fone fdiv fmul false permit fp expd smax nlab recs)
  = res_obs (load fone fdiv fmul false permit fp expd smax nlab recs').
Proof. exact lax_order_preserving. Qed.
Print Assumptions C20_lax_order_preserving.

(* every output slice k shows the REC slice of record idx[k] (an existing record, none used
   twice) and carries the slope and intercept computed from THAT record, for both conventions
   (fp = false: dv = (RS, RI); fp = true: (1/SS, RI/(RS*SS))) and both sort orders *)
Theorem C20_own_factors : forall fone fdiv fmul strict permit fp expd smax nlab recs idx o,
  load fone fdiv fmul strict permit fp expd smax nlab recs = Ok (idx, o) ->
  NoDup idx /\ length (o_payload o) = length idx /\ length (o_slope o) = length idx /\
  length (o_inter o) = length idx /\
  forall k, (k < length idx)%nat ->
    exists r, nth_error recs (nth k idx O) = Some r /\
      nth k (o_payload o) (-1) = pid r /\
      nth k (o_slope o) 0 = slope_of fone fdiv fp r /\ nth k (o_inter o) 0 = inter_of fdiv fmul fp r.
Proof. exact own_factors. Qed.
Print Assumptions C20_own_factors.

(* truncated recordings, both sort orders (after fix 7962d745 also the strict one): when at
   least one volume is complete, the records kept by get_sorted_slice_indices are exactly the
   records flagged by vol_is_full - on the recorded order (lax) resp. on the stage-1 sorted
   order (strict) - as belonging to a complete volume; the indices are valid and distinct *)
Theorem C20_truncated_complete_only : forall (strict : bool) smax recs idx nv,
  sorted_slice_indices strict smax recs = Some idx ->
  n_vols smax recs = Some nv -> (1 <= nv)%nat ->
  exists full, vol_is_full (map sl (base_of strict recs)) smax = Some full /\
    Permutation (select dummy idx recs) (map fst (filter snd (combine (base_of strict recs) full))) /\
    NoDup idx /\ (forall i, In i idx -> (i < length recs)%nat).
Proof. exact truncated_complete_only. Qed.
Print Assumptions C20_truncated_complete_only.

(* the hypothesis 1 <= nv is needed: with no complete volume the shape falls back to 3-D and
   n_used = n_slices records of incomplete volumes are kept (finding S-C20c) *)
Theorem C20_no_complete_volume_refuted :
  exists strict smax recs idx,
    sorted_slice_indices strict smax recs = Some idx /\ n_vols smax recs = Some 0%nat /\ idx = [0%nat].
Proof.
  exists true, 2, [mkRec [1;0] 1 0 0 0 0 [] []]. eexists.
  split; [vm_compute; reflexivity|]. split; vm_compute; reflexivity.
Qed.
Print Assumptions C20_no_complete_volume_refuted.

(* vol_is_full's notion of a complete volume, spelled out: the flag of a record is true iff
   every slice number 1..slice_max occurs in the record's volume, where slice s occupies
   exactly the volumes 0 .. count(s)-1 (so the notion does not depend on the record order) *)
Theorem C20_vol_is_full_meaning : forall sn smax full,
  vol_is_full sn smax = Some full ->
  (forall s, In s sn -> 1 <= s <= smax) /\ length full = length sn /\
  (forall v b, In (v, b) (combine (vol_numbers sn) full) ->
     (b = true <-> forall s, 1 <= s <= smax -> In (s, v) (combine sn (vol_numbers sn)))) /\
  (forall s v, In (s, v) (combine sn (vol_numbers sn)) <->
     exists k : nat, v = Z.of_nat k /\ (k < count_occ Z.eq_dec sn s)%nat).
Proof. exact vol_is_full_meaning. Qed.
Print Assumptions C20_vol_is_full_meaning.

(* label level, strict order, positive part: if the stage-1 (key) order of the records is a
   sequence of complete volumes (each with slices 1..slice_max in order; in key order a run
   of records that agree on every key but the slice number - the least significant key - is
   such a block) followed by at most one incomplete volume (distinct slice numbers, one
   missing; T = [] for an untruncated recording), then the output is EXACTLY those complete
   volumes, in key order, slice by slice: output volume k is the k-th group. *)
Theorem C20_strict_complete_volumes : forall smax recs Gs T idx,
  stage1 recs = concat Gs ++ T -> Gs <> [] -> 1 <= smax ->
  Forall (complete_group smax) Gs ->
  NoDup (map sl T) -> (forall s, In s (map sl T) -> 1 <= s <= smax) ->
  (exists s0, 1 <= s0 <= smax /\ ~ In s0 (map sl T)) ->
  sorted_slice_indices true smax recs = Some idx ->
  select dummy idx recs = concat Gs.
Proof. exact strict_complete_volumes. Qed.
Print Assumptions C20_strict_complete_volumes.

(* ... and that shape is DERIVED for a recording whose label groups are complete.  `keyed smax recs`
   is a condition on the record list alone: every key tuple is slice number :: label keys (slice =
   least significant sort key), all of one length, slice numbers within 1..slice_max, and every label
   that occurs occurs with every slice number 1..slice_max.  Then the key-sorted list is the
   concatenation of its label groups (`groups`: the maximal runs of equal label), each holding
   slices 1..slice_max in order and one label only. *)
Theorem C20_labelled_blocks : forall smax recs,
  keyed smax recs -> NoDup (map keys recs) ->
  let Gs := groups (length (stage1 recs)) (stage1 recs) in
  stage1 recs = concat Gs /\ Forall (complete_group smax) Gs /\ Forall one_label Gs.
Proof. exact labelled_blocks. Qed.
Print Assumptions C20_labelled_blocks.

(* so, speaking about `recs` only: the strict order returns exactly the volumes by label *)
Theorem C20_strict_labelled_volumes : forall smax recs idx,
  keyed smax recs -> NoDup (map keys recs) -> recs <> [] -> 1 <= smax ->
  sorted_slice_indices true smax recs = Some idx ->
  let Gs := groups (length (stage1 recs)) (stage1 recs) in
  select dummy idx recs = concat Gs /\ Permutation (concat Gs) recs /\
  Forall (complete_group smax) Gs /\ Forall one_label Gs.
Proof. exact strict_labelled_volumes. Qed.
Print Assumptions C20_strict_labelled_volumes.

(* END TO END: a strict load of ANY permutation recs' of such a recording that succeeds returns
   exactly the recording's volumes by label (Gs depends on recs only), every volume with slices
   1..slice_max in order, every output slice showing its record's pixels with that record's own
   slope and intercept, for both scaling conventions *)
Theorem C20_strict_load_by_label : forall fone fdiv fmul permit fp expd smax nlab recs recs' idx o,
  Permutation recs recs' -> keyed smax recs -> NoDup (map keys recs) -> recs <> [] -> 1 <= smax ->
  load fone fdiv fmul true permit fp expd smax nlab recs' = Ok (idx, o) ->
  let Gs := groups (length (stage1 recs)) (stage1 recs) in
  Permutation (concat Gs) recs /\ Forall (complete_group smax) Gs /\ Forall one_label Gs /\
  select dummy idx recs' = concat Gs /\
  o_payload o = map pid (concat Gs) /\
  o_slope o = map (slope_of fone fdiv fp) (concat Gs) /\
  o_inter o = map (inter_of fdiv fmul fp) (concat Gs).
Proof. exact strict_load_by_label. Qed.
Print Assumptions C20_strict_load_by_label.

Example C20_keyed_nonvacuous :
  let recs := [mkRec [2;2] 2 3 40 41 42 [2;2] [2]; mkRec [2;1] 2 1 20 21 22 [2;1] [1];
               mkRec [1;2] 1 2 30 31 32 [1;2] [2]; mkRec [1;1] 1 0 10 11 12 [1;1] [1]] in
  keyed 2 recs /\ NoDup (map keys recs) /\
  map (map pid) (groups (length (stage1 recs)) (stage1 recs)) = [[0; 1]; [2; 3]].
Proof.
  cbv zeta. split; [|split; [repeat constructor; cbn; intuition discriminate|vm_compute; reflexivity]].
  split.
  - intros r H. cbn in H. repeat (destruct H as [<-|H]; [reflexivity|]). destruct H.
  - intros a b Ha Hb. cbn in Ha, Hb.
    repeat (destruct Ha as [<-|Ha]; [repeat (destruct Hb as [<-|Hb]; [reflexivity|]); destruct Hb|]). destruct Ha.
  - intros r H. cbn in H. repeat (destruct H as [<-|H]; [cbn; lia|]). destruct H.
  - intros r s H Hs. assert (Es : s = 1 \/ s = 2) by lia. cbn in H.
    repeat (destruct H as [<-|H];
            [destruct Es as [->| ->];
             solve [eexists; split; [left; reflexivity|split; reflexivity]
                   |eexists; split; [right; left; reflexivity|split; reflexivity]
                   |eexists; split; [right; right; left; reflexivity|split; reflexivity]
                   |eexists; split; [right; right; right; left; reflexivity|split; reflexivity]]|]).
    destruct H.
Qed.

(* Without that shape of the key order the label-level statement fails:
   FULL label-level statement of "exactly the complete volumes are returned" for the strict
   order: every output volume (n_slices consecutive output slices) consists of records that
   agree on all keys but the slice number.  It is FALSE of the faithful model when a volume
   that is not last in key order lacks a slice (finding S-C20b): vol_numbers pairs the
   missing slice with the next volume's.  Witness: 2 slices, volumes A (complete),
   B (slice 2 missing), C (complete); the two volumes returned are A and {B1, C2}. *)
Theorem C20_strict_label_volumes_refuted :
  exists recs smax idx r1 r2,
    NoDup (map keys recs) /\ Forall (fun r => sl r = hd 0 (keys r)) recs /\
    sorted_slice_indices true smax recs = Some idx /\ n_vols smax recs = Some 2%nat /\ n_slices recs = 2%nat /\
    nth_error recs (nth 2 idx O) = Some r1 /\ nth_error recs (nth 3 idx O) = Some r2 /\
    tl (keys r1) <> tl (keys r2).
Proof.
  exists [mkRec [1;0] 1 0 0 0 0 [] []; mkRec [2;0] 2 1 0 0 0 [] []; mkRec [1;1] 1 2 0 0 0 [] [];
          mkRec [1;2] 1 3 0 0 0 [] []; mkRec [2;2] 2 4 0 0 0 [] []], 2.
  eexists; eexists; eexists.
  split; [repeat constructor; cbn; intuition discriminate|].
  split; [repeat constructor|].
  split; [vm_compute; reflexivity|].
  split; [vm_compute; reflexivity|]. split; [vm_compute; reflexivity|].
  split; [vm_compute; reflexivity|]. split; [vm_compute; reflexivity|].
  cbn. discriminate.
Qed.
Print Assumptions C20_strict_label_volumes_refuted.

(* non-vacuity: two volumes of two slices with distinct keys and different scale factors,
   recorded volume-major and slice-major-reversed; both loads succeed with the same result *)
Example C20_strict_complete_volumes_nonvacuous :
  let A1 := mkRec [1;0] 1 0 0 0 0 [] [] in let A2 := mkRec [2;0] 2 1 0 0 0 [] [] in
  let B1 := mkRec [1;1] 1 2 0 0 0 [] [] in let B2 := mkRec [2;1] 2 3 0 0 0 [] [] in
  let C1 := mkRec [1;2] 1 4 0 0 0 [] [] in
  let recs := [C1; B2; A2; B1; A1] in
  stage1 recs = concat [[A1; A2]; [B1; B2]] ++ [C1] /\ Forall (complete_group 2) [[A1; A2]; [B1; B2]] /\
  NoDup (map sl [C1]) /\ ~ In 2 (map sl [C1]) /\
  sorted_slice_indices true 2 recs = Some [4; 2; 3; 1]%nat.
Proof.
  cbv zeta. split; [vm_compute; reflexivity|]. split; [repeat constructor|].
  split; [repeat constructor; cbn; tauto|]. split; [cbn; intuition discriminate|vm_compute; reflexivity].
Qed.

Example C20_nonvacuous :
  let recs := [mkRec [1;1] 1 0 10 11 12 [1;1] [1]; mkRec [2;1] 2 1 20 21 22 [2;1] [1];
               mkRec [1;2] 1 2 30 31 32 [1;2] [2]; mkRec [2;2] 2 3 40 41 42 [2;2] [2]] in
  let recs' := [mkRec [2;2] 2 3 40 41 42 [2;2] [2]; mkRec [2;1] 2 1 20 21 22 [2;1] [1];
                mkRec [1;2] 1 2 30 31 32 [1;2] [2]; mkRec [1;1] 1 0 10 11 12 [1;1] [1]] in
  Permutation recs recs' /\ NoDup (map keys recs) /\
  res_obs (load 1 Z.div Z.mul true false true [2;2] 2 1 recs')
  = Ok (mkObs 2 2 [0;1;2;3] [0;0;0;0] [0;0;0;0] [Some [1;2]]) /\
  (exists idx o, load 1 Z.div Z.mul true false false [2;2] 2 1 recs' = Ok (idx, o) /\ idx = [3;1;2;0]%nat
     /\ o_slope o = [10;20;30;40] /\ o_inter o = [11;21;31;41]).
Proof.
  cbv zeta. split; [|split; [|split]].
  - apply (NoDup_Permutation); [repeat constructor; cbn; intuition discriminate
                                |repeat constructor; cbn; intuition discriminate|].
    intros x. cbn. tauto.
  - repeat constructor; cbn; intuition discriminate.
  - vm_compute. reflexivity.
  - eexists; eexists. split; [vm_compute; reflexivity|]. repeat split.
Qed.
