(* C20/Props.v — property theorems only.  Each is closed by `exact <lemma>` and followed by
   Print Assumptions.  Property C20: PAR/REC volumes are assembled by slice labels, not by
   record order.  `fone fdiv fmul` are the float64 constant 1.0 and the NumPy division and
   multiplication kernels on bit patterns (oracles; nothing is assumed about them). *)
From Coq Require Import ZArith List Bool Lia Permutation.
From NV Require Import C20.Model C20.ListPerm C20.Lemmas.
Import ListNotations.
Open Scope Z_scope.

(* strict sorting: for ANY permutation of the records (REC slices permuted alike: a slice
   is represented by the id `pid` its record carries), if the stage-1 key tuples are pairwise
   distinct, then the refusal/acceptance, the shape (n_slices, n_vols), the list of REC slices
   making up the output array, the per-slice slopes and intercepts (dv and fp) and the
   volume labels are identical. *)
Theorem C20_order_independent : forall fone fdiv fmul permit fp expd smax nlab recs recs',
  Permutation recs recs' -> NoDup (map keys recs) ->
  res_obs (load fone fdiv fmul true permit fp expd smax nlab recs)
  = res_obs (load fone fdiv fmul true permit fp expd smax nlab recs').
Proof. exact order_independent. Qed.
Print Assumptions C20_order_independent.

(* key tuples that are NOT pairwise distinct (V4 diffusion recordings: the keys cannot tell the
   volumes apart).  The initial sort is stable - C20_stage1_stable: for every key tuple the records
   carrying it keep their record order - and inside a key group volumes are numbered by counting
   repeats in that order.  "The same volumes irrespective of record order" can therefore only mean:
   irrespective of every reordering that keeps, for every key tuple, the subsequence of the records
   with that tuple (for distinct tuples: every permutation, C20_order_independent).  For exactly
   those reorderings the result is identical; C20_tied_keys_order_dependent shows that a reordering
   which swaps two records with the same key tuple does change the image. *)
Theorem C20_stage1_stable : forall recs k, filter (same_key k) (stage1 recs) = filter (same_key k) recs.
Proof. exact stage1_stable. Qed.
Print Assumptions C20_stage1_stable.

Theorem C20_order_independent_stable : forall fone fdiv fmul permit fp expd smax nlab recs recs',
  Permutation recs recs' -> (forall k, filter (same_key k) recs = filter (same_key k) recs') ->
  res_obs (load fone fdiv fmul true permit fp expd smax nlab recs)
  = res_obs (load fone fdiv fmul true permit fp expd smax nlab recs').
Proof. exact order_independent_stable. Qed.
Print Assumptions C20_order_independent_stable.

Theorem C20_tied_keys_order_dependent :
  exists recs recs', Permutation recs recs' /\
    res_obs (load 1 Z.div Z.mul true false false [] 1 0 recs)
    <> res_obs (load 1 Z.div Z.mul true false false [] 1 0 recs').
Proof.
  exists [mkRec [1;0] 1 7 0 0 0 [] []; mkRec [1;0] 1 8 0 0 0 [] []],
         [mkRec [1;0] 1 8 0 0 0 [] []; mkRec [1;0] 1 7 0 0 0 [] []].
  split; [apply perm_swap|vm_compute; discriminate].
Qed.
Print Assumptions C20_tied_keys_order_dependent.

Example C20_stable_nonvacuous :
  let a := mkRec [1;0] 1 7 0 0 0 [] [] in let b := mkRec [1;0] 1 8 0 0 0 [] [] in
  let c := mkRec [1;5] 1 9 0 0 0 [] [] in
  Permutation [a; b; c] [c; a; b] /\ (forall k, filter (same_key k) [a; b; c] = filter (same_key k) [c; a; b]) /\
  res_obs (load 1 Z.div Z.mul true false false [] 1 0 [c; a; b]) = Ok (mkObs 1 3 [7; 8; 9] [0; 0; 0] [0; 0; 0] []).
Proof.
  cbv zeta. split; [|split; [|vm_compute; reflexivity]].
  - apply Permutation_sym. apply (Permutation_cons_app [_; _] [] _). rewrite app_nil_r. reflexivity.
  - intros k. unfold same_key. cbn [filter keys].
    destruct (zl_eqb [1; 0] k) eqn:E1, (zl_eqb [1; 5] k) eqn:E2; try reflexivity.
    exfalso. apply zl_eqb_iff in E1, E2. congruence.
Qed.

(* the same for strict_sort=False on the order-preserving permutations of the quantifier:
   every record keeps its volume number (= how often its slice number occurred before it) *)
Theorem C20_lax_order_preserving : forall fone fdiv fmul permit fp expd smax nlab recs recs',
  Permutation (combine recs (vol_numbers (map sl recs))) (combine recs' (vol_numbers (map sl recs'))) ->
  res_obs (load fone fdiv fmul false permit fp expd smax nlab recs)
  = res_obs (load fone fdiv fmul false permit fp expd smax nlab recs').
Proof. exact lax_order_preserving. Qed.
Print Assumptions C20_lax_order_preserving.

(* every output slice k shows the REC slice of record idx[k] (an existing record, none used
   twice) and carries the slope and intercept computed from THAT record, for both conventions
   (fp = false: dv = (RS, RI); fp = true: (1/SS, RI/(RS*SS))) and both sort orders *)
Theorem C20_own_factors : forall fone fdiv fmul strict permit fp expd smax nlab recs idx o,
  load fone fdiv fmul strict permit fp expd smax nlab recs = Ok (idx, o) ->
  NoDup idx /\ length (o_payload o) = length idx /\ length (o_slope o) = length idx /\
  length (o_inter o) = length idx /\
  forall k, (k < length idx)%nat ->
    exists r, nth_error recs (nth k idx O) = Some r /\
      nth k (o_payload o) (-1) = pid r /\
      nth k (o_slope o) 0 = slope_of fone fdiv fp r /\ nth k (o_inter o) 0 = inter_of fdiv fmul fp r.
Proof. exact own_factors. Qed.
Print Assumptions C20_own_factors.

(* truncated recordings, both sort orders: when at least one volume is complete, the records kept
   by get_sorted_slice_indices are exactly the records flagged by vol_is_full as belonging to a
   complete volume - for the volume numbers of the order in question (vols_of: vol_numbers of the
   recorded order for the lax order; key groups + repeats of the key-sorted records for the strict
   order, after the S-C20b repair); the indices are valid and distinct *)
Theorem C20_truncated_complete_only : forall (strict : bool) smax recs idx nv,
  sorted_slice_indices strict smax recs = Some idx ->
  n_vols strict smax recs = Some nv -> (1 <= nv)%nat ->
  exists vn full, vols_of strict smax (base_of strict recs) = Some (vn, full) /\
    Permutation (select dummy idx recs) (map fst (filter snd (combine (base_of strict recs) full))) /\
    NoDup idx /\ (forall i, In i idx -> (i < length recs)%nat).
Proof. exact truncated_complete_only. Qed.
Print Assumptions C20_truncated_complete_only.

(* ... and with no complete volume at all the load is refused (S-C20c repaired) *)
Theorem C20_no_volume_refused : forall fone fdiv fmul (strict : bool) permit fp expd smax nlab recs,
  n_vols strict smax recs = Some O ->
  exists e, load fone fdiv fmul strict permit fp expd smax nlab recs = Err e.
Proof. exact no_volume_refused. Qed.
Print Assumptions C20_no_volume_refused.

(* vol_is_full's notion of a complete volume (default volume numbers), spelled out *)
Theorem C20_vol_is_full_meaning : forall sn smax full,
  vol_is_full sn smax = Some full ->
  (forall s, In s sn -> 1 <= s <= smax) /\ length full = length sn /\
  (forall v b, In (v, b) (combine (vol_numbers sn) full) ->
     (b = true <-> forall s, 1 <= s <= smax -> In (s, v) (combine sn (vol_numbers sn)))) /\
  (forall s v, In (s, v) (combine sn (vol_numbers sn)) <->
     exists k : nat, v = Z.of_nat k /\ (k < count_occ Z.eq_dec sn s)%nat).
Proof. exact vol_is_full_meaning. Qed.
Print Assumptions C20_vol_is_full_meaning.

(* LABEL LEVEL, strict order, FULL statement (no hypothesis on what is missing or where).
   `keyed smax recs` is a condition on the record list alone: every key tuple is
   slice number :: label keys (slice = least significant sort key), all of one length, slice
   numbers within 1..slice_max.  Gs = the label groups of the key-sorted records (maximal runs
   of one label; non-empty, labels pairwise different, slices strictly ascending).  Then the
   strict order keeps EXACTLY the records of the complete groups (completeb: all of 1..slice_max
   present; = slices are 1..slice_max in order, C20_completeb_spec), group after group in key
   order, slice by slice. *)
Theorem C20_strict_label_volumes : forall smax recs idx nv,
  keyed smax recs -> NoDup (map keys recs) ->
  sorted_slice_indices true smax recs = Some idx -> n_vols true smax recs = Some nv -> (1 <= nv)%nat ->
  let Gs := groups (length (stage1 recs)) (stage1 recs) in
  select dummy idx recs = concat (filter (completeb smax) Gs) /\
  stage1 recs = concat Gs /\ sep Gs /\ Forall slice_sorted Gs.
Proof. exact strict_label_volumes. Qed.
Print Assumptions C20_strict_label_volumes.

Theorem C20_completeb_spec : forall smax G, slice_sorted G -> (forall r, In r G -> 1 <= sl r <= smax) ->
  completeb smax G = true <-> map sl G = zrange 1 smax.
Proof. exact completeb_spec. Qed.
Print Assumptions C20_completeb_spec.

(* END TO END: a strict load of ANY permutation recs' of a recording that succeeds returns exactly
   the recording's complete volumes by label (Gs and kept depend on recs only), slices in order,
   every output slice showing its record's pixels with that record's own slope and intercept,
   for both scaling conventions - truncated anywhere or not at all *)
Theorem C20_strict_load_by_label : forall fone fdiv fmul permit fp expd smax nlab recs recs' idx o,
  Permutation recs recs' -> keyed smax recs -> NoDup (map keys recs) ->
  load fone fdiv fmul true permit fp expd smax nlab recs' = Ok (idx, o) ->
  let Gs := groups (length (stage1 recs)) (stage1 recs) in
  let kept := concat (filter (completeb smax) Gs) in
  stage1 recs = concat Gs /\ sep Gs /\ Forall slice_sorted Gs /\
  select dummy idx recs' = kept /\
  o_payload o = map pid kept /\
  o_slope o = map (slope_of fone fdiv fp) kept /\
  o_inter o = map (inter_of fdiv fmul fp) kept.
Proof. exact strict_load_by_label. Qed.
Print Assumptions C20_strict_load_by_label.

(* the former S-C20b witness (2 slices; volumes A complete, B without slice 2, C complete) in a
   shuffled record order: the kept records are A1 A2 C1 C2 *)
Example C20_truncated_middle_volume :
  let A1 := mkRec [1;0] 1 0 0 0 0 [] [] in let A2 := mkRec [2;0] 2 1 0 0 0 [] [] in
  let B1 := mkRec [1;1] 1 2 0 0 0 [] [] in
  let C1 := mkRec [1;2] 1 3 0 0 0 [] [] in let C2 := mkRec [2;2] 2 4 0 0 0 [] [] in
  let recs := [C2; B1; A2; C1; A1] in
  keyed 2 recs /\ NoDup (map keys recs) /\
  sorted_slice_indices true 2 recs = Some [4; 2; 3; 0]%nat /\ n_vols true 2 recs = Some 2%nat /\
  map (map pid) (filter (completeb 2) (groups (length (stage1 recs)) (stage1 recs))) = [[0; 1]; [3; 4]].
Proof.
  cbv zeta. split; [|split; [repeat constructor; cbn; intuition discriminate|repeat split; vm_compute; reflexivity]].
  split.
  - intros r H. cbn in H. repeat (destruct H as [<-|H]; [reflexivity|]). destruct H.
  - intros a b Ha Hb. cbn in Ha, Hb.
    repeat (destruct Ha as [<-|Ha]; [repeat (destruct Hb as [<-|Hb]; [reflexivity|]); destruct Hb|]). destruct Ha.
  - intros r H. cbn in H. repeat (destruct H as [<-|H]; [cbn; lia|]). destruct H.
Qed.
Print Assumptions C20_truncated_middle_volume.

(* non-vacuity: two volumes of two slices with distinct keys and different scale factors,
   recorded volume-major and slice-major-reversed; both loads succeed with the same result *)
Example C20_nonvacuous :
  let recs := [mkRec [1;1] 1 0 10 11 12 [1;1] [1]; mkRec [2;1] 2 1 20 21 22 [2;1] [1];
               mkRec [1;2] 1 2 30 31 32 [1;2] [2]; mkRec [2;2] 2 3 40 41 42 [2;2] [2]] in
  let recs' := [mkRec [2;2] 2 3 40 41 42 [2;2] [2]; mkRec [2;1] 2 1 20 21 22 [2;1] [1];
                mkRec [1;2] 1 2 30 31 32 [1;2] [2]; mkRec [1;1] 1 0 10 11 12 [1;1] [1]] in
  Permutation recs recs' /\ NoDup (map keys recs) /\
  res_obs (load 1 Z.div Z.mul true false true [2;2] 2 1 recs')
  = Ok (mkObs 2 2 [0;1;2;3] [0;0;0;0] [0;0;0;0] [Some [1;2]]) /\
  (exists idx o, load 1 Z.div Z.mul true false false [2;2] 2 1 recs' = Ok (idx, o) /\ idx = [3;1;2;0]%nat
     /\ o_slope o = [10;20;30;40] /\ o_inter o = [11;21;31;41]).
Proof.
  cbv zeta. split; [|split; [|split]].
  - apply (NoDup_Permutation); [repeat constructor; cbn; intuition discriminate
                                |repeat constructor; cbn; intuition discriminate|].
    intros x. cbn. tauto.
  - repeat constructor; cbn; intuition discriminate.
  - vm_compute. reflexivity.
  - eexists; eexists. split; [vm_compute; reflexivity|]. repeat split.
Qed.
