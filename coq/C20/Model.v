(* C20/Model.v — PAR/REC: how slice records are ordered into volumes.
   Counterparts in /repo/nibabel/parrec.py (code as of fix 7962d745):
     vol_numbers, vol_is_full                      -> vol_numbers, vol_is_full
     _truncation_checks                            -> header_init
     PARRECHeader._get_n_slices/_get_n_vols/
       _calc_data_shape                            -> n_slices, n_vols, n_used
     PARRECHeader._strict_sort_volumes /
       _strict_sort_order (after the S-C20b repair)   -> strict_sort_volumes, strict_sort_order
     PARRECHeader._lax_sort_order                  -> lax_sort_order
     PARRECHeader.get_sorted_slice_indices         -> sorted_slice_indices
     PARRECHeader.get_data_scaling                 -> data_scaling
     PARRECArrayProxy._get_unscaled (slicer=())    -> unscaled   (rec_data[..., indices])
     PARRECHeader.get_volume_labels                -> volume_labels
   np.lexsort(keys) is modelled as a STABLE sort of the positions by the key columns, the
   LAST key being the primary one (lexsort); a record carries its key tuple in the order of
   the `keys` tuple of the source.  A REC slice is represented by the id of the record it
   was generated for (`pid`); floats are opaque 64-bit patterns (Z) and the three float
   operations used by get_data_scaling are Section variables.  Definitions only. *)
From Coq Require Import ZArith List Bool.
Import ListNotations.
Open Scope Z_scope.

(* ------------------------------------------------------------ generic: stable sort *)
(* insertion of x BEFORE the first y with le x y; isort = fold_right, so an element that
   comes earlier in the input stays before later elements it ties with: stable *)
Fixpoint insert {A} (le : A -> A -> bool) (x : A) (l : list A) : list A :=
  match l with
  | [] => [x]
  | y :: r => if le x y then x :: y :: r else y :: insert le x r
  end.
Definition isort {A} (le : A -> A -> bool) (l : list A) : list A := fold_right (insert le) [] l.

(* lexicographic <= on lists, first element most significant (total on all lists) *)
Fixpoint lex_le (a b : list Z) : bool :=
  match a, b with
  | [], _ => true
  | _ :: _, [] => false
  | x :: a', y :: b' => if x <? y then true else if y <? x then false else lex_le a' b'
  end.
(* np.lexsort: the last key is the primary one *)
Definition key_le (a b : list Z) : bool := lex_le (rev a) (rev b).

(* np.lexsort(keys) with keys given per record (row i = (k_0[i], ..., k_m[i])) *)
Definition lexsort (ks : list (list Z)) : list nat :=
  map fst (isort (fun a b => lex_le (snd a) (snd b))
                 (combine (seq 0 (length ks)) (map (@rev Z) ks))).

(* fancy indexing a[idx] *)
Definition select {A} (d : A) (idx : list nat) (l : list A) : list A := map (fun i => nth i l d) idx.

Definition n_distinct (l : list Z) : nat := length (nodup Z.eq_dec l).   (* len(set(l)) *)
Definition b2z (b : bool) : Z := if b then 1 else 0.
Definition memz (x : Z) (l : list Z) : bool := existsb (Z.eqb x) l.
Definition zrange (lo hi : Z) : list Z :=                      (* range(lo, hi + 1) *)
  map (fun k => lo + Z.of_nat k) (seq 0 (Z.to_nat (hi + 1 - lo))).
Definition set_eqb (a b : list Z) : bool :=
  forallb (fun x => memz x b) a && forallb (fun x => memz x a) b.
Fixpoint lookup (v : Z) (t : list (Z * bool)) (d : bool) : bool :=
  match t with [] => d | (k, b) :: r => if k =? v then b else lookup v r d end.

(* ------------------------------------------------------------ vol_numbers / vol_is_full *)
(* `seen` plays the role of the `counter` dict: count of s so far = occurrences in seen *)
Fixpoint vol_numbers_aux (seen l : list Z) : list Z :=
  match l with
  | [] => []
  | s :: r => Z.of_nat (count_occ Z.eq_dec seen s) :: vol_numbers_aux (s :: seen) r
  end.
Definition vol_numbers (l : list Z) : list Z := vol_numbers_aux [] l.

Definition vol_slices (sn vn : list Z) (v : Z) : list Z :=      (* slice_nos[vol_nos == v] *)
  map fst (filter (fun p => snd p =? v) (combine sn vn)).

(* None = ValueError (slice number outside 1..slice_max); vn = the vol_nos argument *)
Definition vol_is_full_with (sn vn : list Z) (smax : Z) : option (list bool) :=
  let sset := zrange 1 smax in
  if negb (forallb (fun s => memz s sset) sn) then None
  else
    let tab := map (fun v => (v, set_eqb (vol_slices sn vn v) sset)) (nodup Z.eq_dec vn) in
    Some (map (fun v => lookup v tab true) vn).
(* vol_nos=None: inferred with vol_numbers *)
Definition vol_is_full (sn : list Z) (smax : Z) : option (list bool) :=
  vol_is_full_with sn (vol_numbers sn) smax.

(* vol_numbers over (group, slice) pairs: the counter dict keyed by tuples *)
Definition pair_eqb (p q : Z * Z) : bool := (fst p =? fst q) && (snd p =? snd q).
Fixpoint vol_numbers2_aux (seen l : list (Z * Z)) : list Z :=
  match l with
  | [] => []
  | p :: r => Z.of_nat (length (filter (pair_eqb p) seen)) :: vol_numbers2_aux (p :: seen) r
  end.
Definition vol_numbers2 (l : list (Z * Z)) : list Z := vol_numbers2_aux [] l.

(* group_nos: 0 for the first row, +1 at every row that differs from its predecessor
   (np.cumsum of is_new_group) *)
Fixpoint zl_eqb (a b : list Z) : bool :=
  match a, b with
  | [], [] => true
  | x :: a', y :: b' => (x =? y) && zl_eqb a' b'
  | _, _ => false
  end.
Fixpoint group_nos_aux (prev : list Z) (g : Z) (l : list (list Z)) : list Z :=
  match l with
  | [] => []
  | x :: r => let g' := if zl_eqb x prev then g else g + 1 in g' :: group_nos_aux x g' r
  end.
Definition group_nos (l : list (list Z)) : list Z :=
  match l with [] => [] | x :: r => 0 :: group_nos_aux x 0 r end.

(* ------------------------------------------------------------ records *)
Record rec := mkRec {
  keys : list Z;   (* stage-1 sort keys in the order of the source's `keys` tuple: slice first *)
  sl : Z;          (* image_defs['slice number'] *)
  pid : Z;         (* id of the REC slice stored at this record's position *)
  rs : Z; ri : Z; ss : Z;   (* rescale slope, rescale intercept, scale slope (float64 bits) *)
  cks : list Z;    (* the id columns looked at by _chk_trunc, those whose maximum is in general_info *)
  labs : list Z    (* the dynamic_keys columns present in this PAR version *)
}.
Definition dummy : rec := mkRec [] 0 (-1) 0 0 0 [] [].
Definition column (f : rec -> list Z) (j : nat) (recs : list rec) : list Z :=
  map (fun r => nth j (f r) 0) recs.

Inductive err := ErrTruncated | ErrSliceRange | ErrNoVolume.
Inductive res (A : Type) := Ok (a : A) | Err (e : err).
Arguments Ok {A}. Arguments Err {A}.

(* _truncation_checks; expd = the general_info maxima, in the order of cks *)
Definition chk_trunc (expd : list Z) (recs : list rec) : bool :=
  existsb (fun p => negb (Z.of_nat (n_distinct (column cks (fst p) recs)) =? snd p))
          (combine (seq 0 (length expd)) expd).

Definition header_init (permit : bool) (expd : list Z) (smax : Z) (recs : list rec) : res unit :=
  if chk_trunc expd recs && negb permit then Err ErrTruncated
  else match vol_is_full (map sl recs) smax with
       | None => Err ErrSliceRange
       | Some full => if negb (forallb (fun b => b) full) && negb permit then Err ErrTruncated
                      else Ok tt
       end.

Definition key2 (v : Z) (f : bool) : list Z := [v; b2z (negb f)].
(* _strict_sort_volumes: initial_sort_order, vol_nos and is_full (both in that order) *)
Definition strict_sort_volumes (smax : Z) (recs : list rec) : option (list nat * list Z * list bool) :=
  let iso := lexsort (map keys recs) in                       (* initial_sort_order *)
  let sn := select 0 iso (map sl recs) in                     (* sorted_slices *)
  let labs_ := select [] iso (map (fun r => tl (keys r)) recs) in   (* sorted_labels, one row per record *)
  let gn := group_nos labs_ in
  let rn := vol_numbers2 (combine gn sn) in                   (* repeat_nos *)
  let vn := map (fun p => fst p * (fold_right Z.max 0 rn + 1) + snd p) (combine gn rn) in
  match vol_is_full_with sn vn smax with
  | None => None
  | Some full => Some (iso, vn, full)
  end.

Definition n_slices (recs : list rec) : nat := n_distinct (map sl recs).
Definition n_vols (strict : bool) (smax : Z) (recs : list rec) : option nat :=
  if strict then
    match strict_sort_volumes smax recs with
    | None => None
    | Some (_, vn, full) => Some (n_distinct (map fst (filter snd (combine vn full))))
    end
  else
    let sn := map sl recs in
    match vol_is_full sn smax with
    | None => None
    | Some full => Some (n_distinct (map fst (filter snd (combine (vol_numbers sn) full))))
    end.
(* np.prod(self.get_data_shape()[2:]); the shape is 3-D unless n_vols > 1 *)
Definition n_used (strict : bool) (smax : Z) (recs : list rec) : option nat :=
  match n_vols strict smax recs with
  | None => None
  | Some nv => Some (if Nat.ltb 1 nv then n_slices recs * nv else n_slices recs)%nat
  end.

Definition strict_sort_order (smax : Z) (recs : list rec) : option (list nat) :=
  match strict_sort_volumes smax recs with
  | None => None
  | Some (iso, vn, full) =>
    Some (select O (lexsort (map (fun p => key2 (fst p) (snd p)) (combine vn full))) iso)
  end.

Definition lax_sort_order (smax : Z) (recs : list rec) : option (list nat) :=
  let sn := map sl recs in
  match vol_is_full sn smax with
  | None => None
  | Some full =>
    Some (lexsort (map (fun p => [fst p; fst (snd p); b2z (negb (snd (snd p)))])
                       (combine sn (combine (vol_numbers sn) full))))
  end.

Definition sorted_slice_indices (strict : bool) (smax : Z) (recs : list rec) : option (list nat) :=
  match (if strict then strict_sort_order smax recs else lax_sort_order smax recs),
        n_used strict smax recs with
  | Some order, Some n => Some (firstn n order)
  | _, _ => None
  end.

(* ------------------------------------------------------------ scaling, data, labels *)
Section Float.
  Variable fone : Z.                 (* bits of 1.0 *)
  Variables fdiv fmul : Z -> Z -> Z. (* float64 / and * on bit patterns (NumPy kernels) *)

  (* fp = false: 'dv' (slope, intercept) = (RS, RI); fp = true: (1/SS, RI/(RS*SS)) *)
  Definition slope_of (fp : bool) (r : rec) : Z := if fp then fdiv fone (ss r) else rs r.
  Definition inter_of (fp : bool) (r : rec) : Z :=
    if fp then fdiv (ri r) (fmul (rs r) (ss r)) else ri r.

  (* get_data_scaling: elementwise on all records, THEN reordered with the sorted indices *)
  Definition data_scaling (fp : bool) (idx : list nat) (recs : list rec) : list Z * list Z :=
    (select 0 idx (map (slope_of fp) recs), select 0 idx (map (inter_of fp) recs)).

  (* rec_data[..., indices]: REC slice i is the one generated for record i *)
  Definition unscaled (idx : list nat) (recs : list rec) : list Z := select (-1) idx (map pid recs).

  (* get_volume_labels; nlab = number of dynamic_keys columns present *)
  Definition volume_labels (nlab : nat) (idx : list nat) (recs : list rec) : list (option (list Z)) :=
    let srt := select dummy idx recs in
    map (fun j => if Nat.ltb 1 (n_distinct (column labs j recs))
                  then Some (column labs j (filter (fun r => sl r =? 1) srt)) else None)
        (seq 0 nlab).

  Record obs := mkObs {
    o_nsl : nat; o_nvol : nat;           (* shape[2], n_vols (shape[3] when > 1) *)
    o_payload : list Z;                  (* pids of the output slices, F order over (slice, vol) *)
    o_slope : list Z; o_inter : list Z;  (* per output slice *)
    o_labels : list (option (list Z))
  }.

  Definition load (strict permit fp : bool) (expd : list Z) (smax : Z) (nlab : nat) (recs : list rec)
    : res (list nat * obs) :=
    match header_init permit expd smax recs with
    | Err e => Err e
    | Ok _ =>
      match sorted_slice_indices strict smax recs, n_vols strict smax recs with
      | Some _, Some O => Err ErrNoVolume      (* _calc_data_shape: no complete volume (S-C20c repair) *)
      | Some idx, Some nv =>
        let sc := data_scaling fp idx recs in
        Ok (idx, mkObs (n_slices recs) nv (unscaled idx recs) (fst sc) (snd sc)
                       (volume_labels nlab idx recs))
      | _, _ => Err ErrSliceRange
      end
    end.
End Float.
