(* C20/Lemmas.v — proofs about C20/Model.v *)
From Coq Require Import ZArith List Bool Lia ZifyBool Permutation Sorted.
From NV Require Import C20.Model C20.ListPerm.
Import ListNotations.
Open Scope Z_scope.

Notation cnt := (count_occ Z.eq_dec).

(* ------------------------------------------------------------ small set facts *)
Lemma memz_In x l : memz x l = true <-> In x l.
Proof.
  unfold memz. rewrite existsb_exists. split.
  - intros [y [Hy E]]. apply Z.eqb_eq in E. now subst.
  - intros H. exists x. split; [assumption|apply Z.eqb_refl].
Qed.

Lemma zrange_In lo hi x : In x (zrange lo hi) <-> lo <= x <= hi.
Proof.
  unfold zrange. rewrite in_map_iff. split.
  - intros [k [<- Hk]]. apply in_seq in Hk. lia.
  - intros H. exists (Z.to_nat (x - lo)). split; [lia|]. apply in_seq. lia.
Qed.

Lemma n_distinct_ext a b : (forall x, In x a <-> In x b) -> n_distinct a = n_distinct b.
Proof.
  intros H. unfold n_distinct. apply Permutation_length.
  apply NoDup_Permutation; try apply NoDup_nodup.
  intros x. rewrite !nodup_In. apply H.
Qed.

Lemma n_distinct_perm a b : Permutation a b -> n_distinct a = n_distinct b.
Proof.
  intros P. apply n_distinct_ext. intros x. split; apply Permutation_in; [assumption|now symmetry].
Qed.

Lemma forallb_perm {A} (p : A -> bool) a b : Permutation a b -> forallb p a = forallb p b.
Proof.
  intros P. induction P as [|x l l' P IH|x y l|l l' l'' P1 IH1 P2 IH2]; cbn.
  - reflexivity.
  - now rewrite IH.
  - destruct (p x), (p y); reflexivity.
  - congruence.
Qed.

Lemma lookup_tab (f : Z -> bool) vs v d :
  In v vs -> lookup v (map (fun v => (v, f v)) vs) d = f v.
Proof.
  induction vs as [|w vs IH]; intros H; [destruct H|].
  cbn [map lookup]. destruct (Z.eqb_spec w v) as [->|N]; [reflexivity|].
  destruct H as [E|H]; [congruence|now apply IH].
Qed.

(* ------------------------------------------------------------ vol_numbers *)
Lemma vna_length seen l : length (vol_numbers_aux seen l) = length l.
Proof. revert seen; induction l as [|x r IH]; intros seen; cbn; [reflexivity|]. now rewrite IH. Qed.

(* the pairs (slice, volume) present: slice s occupies volumes count(seen) .. count(seen)+count(l)-1 *)
Lemma vna_in seen l s v :
  In (s, v) (combine l (vol_numbers_aux seen l)) <->
  exists k : nat, v = Z.of_nat k /\ (cnt seen s <= k < cnt seen s + cnt l s)%nat.
Proof.
  revert seen; induction l as [|x r IH]; intros seen.
  - cbn. split; [tauto|]. intros [k [_ H]]. lia.
  - cbn [vol_numbers_aux combine In]. rewrite IH. clear IH.
    destruct (Z.eq_dec x s) as [->|N].
    + rewrite !count_occ_cons_eq by reflexivity. split.
      * intros [E|[k [-> H]]].
        -- inversion E; subst. eexists; split; [reflexivity|lia].
        -- exists k; split; [reflexivity|lia].
      * intros [k [-> H]].
        destruct (Nat.eq_dec k (cnt seen s)) as [->|Nk]; [now left|].
        right. exists k; split; [reflexivity|lia].
    + rewrite !count_occ_cons_neq by assumption. split.
      * intros [E|H]; [inversion E; congruence|assumption].
      * intros H. now right.
Qed.

Lemma vna_nodup seen l : NoDup (combine l (vol_numbers_aux seen l)).
Proof.
  revert seen; induction l as [|x r IH]; intros seen; cbn [vol_numbers_aux combine]; constructor.
  - rewrite vna_in. intros [k [E H]]. rewrite count_occ_cons_eq in H by reflexivity. lia.
  - apply IH.
Qed.

Lemma vn_length l : length (vol_numbers l) = length l.
Proof. apply vna_length. Qed.

Lemma vn_in l s v :
  In (s, v) (combine l (vol_numbers l)) <-> exists k : nat, v = Z.of_nat k /\ (k < cnt l s)%nat.
Proof.
  unfold vol_numbers. rewrite vna_in. cbn [count_occ].
  split; intros [k [E H]]; exists k; (split; [assumption|lia]).
Qed.

Lemma vn_nodup l : NoDup (combine l (vol_numbers l)).
Proof. apply vna_nodup. Qed.

Lemma vn_in_perm l l' s v : Permutation l l' ->
  In (s, v) (combine l (vol_numbers l)) <-> In (s, v) (combine l' (vol_numbers l')).
Proof.
  intros P. rewrite !vn_in. pose proof (proj1 (Permutation_count_occ Z.eq_dec l l') P s) as E.
  now rewrite E.
Qed.

Lemma in_combine_split {A B} (a : list A) (b : list B) y :
  length a = length b -> In y b -> exists x, In (x, y) (combine a b).
Proof.
  revert b; induction a as [|x a IH]; intros [|z b] H Hy; cbn in *; try lia; try tauto.
  destruct Hy as [->|Hy]; [exists x; now left|].
  destruct (IH b ltac:(lia) Hy) as [x' Hx]. exists x'. now right.
Qed.

Lemma combine_map_in {A B} (g : A -> B) l v b : In (v, b) (combine l (map g l)) -> b = g v.
Proof.
  induction l as [|x l IH]; cbn; [tauto|]. intros [E|H]; [now inversion E|now apply IH].
Qed.

(* ------------------------------------------------------------ vol_is_full *)
(* v is a complete volume of the slice sequence sn *)
Definition fullv (sn : list Z) (smax v : Z) : Prop :=
  forall s, 1 <= s <= smax -> In (s, v) (combine sn (vol_numbers sn)).
Definition in_range (sn : list Z) (smax : Z) : Prop := forall s, In s sn -> 1 <= s <= smax.

Lemma vol_slices_In sn vn v s : In s (vol_slices sn vn v) <-> In (s, v) (combine sn vn).
Proof.
  unfold vol_slices. rewrite in_map_iff. split.
  - intros [[s' v'] [E H]]. apply filter_In in H. destruct H as [H Ev]. cbn in *.
    apply Z.eqb_eq in Ev. now subst.
  - intros H. exists (s, v). split; [reflexivity|]. apply filter_In. split; [assumption|].
    cbn. apply Z.eqb_refl.
Qed.

(* v is a complete volume for the volume assignment vn *)
Definition fullvw (sn vn : list Z) (smax v : Z) : Prop :=
  forall s, 1 <= s <= smax -> In (s, v) (combine sn vn).

Lemma viw_spec sn vn smax :
  (in_range sn smax /\ exists full, vol_is_full_with sn vn smax = Some full /\ length full = length vn /\
     forall v b, In (v, b) (combine vn full) -> (b = true <-> fullvw sn vn smax v))
  \/ (~ in_range sn smax /\ vol_is_full_with sn vn smax = None).
Proof.
  unfold vol_is_full_with.
  destruct (forallb (fun s => memz s (zrange 1 smax)) sn) eqn:R; cbn [negb].
  - left. rewrite forallb_forall in R.
    assert (IR : in_range sn smax).
    { intros s Hs. apply zrange_In. apply memz_In. now apply R. }
    split; [exact IR|]. eexists. split; [reflexivity|]. split; [now rewrite map_length|].
    intros v b H.
    set (f := fun v => set_eqb (vol_slices sn vn v) (zrange 1 smax)) in *.
    assert (Hv : In v vn).
    { apply in_combine_l in H. exact H. }
    assert (Hb : b = f v).
    { apply combine_map_in in H. subst b. apply lookup_tab. now apply nodup_In. }
    subst b. unfold f, set_eqb, fullvw. rewrite andb_true_iff, !forallb_forall. split.
    + intros [_ H2] s Hs. apply vol_slices_In. apply memz_In. apply H2. now apply zrange_In.
    + intros F. split.
      * intros s Hs. apply memz_In. apply zrange_In. apply IR.
        apply vol_slices_In in Hs. now apply in_combine_l in Hs.
      * intros s Hs. apply memz_In. apply vol_slices_In. apply F. now apply zrange_In.
  - right. split; [|reflexivity]. intros IR.
    assert (forallb (fun s => memz s (zrange 1 smax)) sn = true); [|congruence].
    apply forallb_forall. intros s Hs. apply memz_In, zrange_In. now apply IR.
Qed.

Lemma vol_is_full_spec sn smax :
  (in_range sn smax /\ exists full, vol_is_full sn smax = Some full /\ length full = length sn /\
     forall v b, In (v, b) (combine (vol_numbers sn) full) -> (b = true <-> fullv sn smax v))
  \/ (~ in_range sn smax /\ vol_is_full sn smax = None).
Proof.
  unfold vol_is_full. destruct (viw_spec sn (vol_numbers sn) smax) as [[IR [full [E [L S]]]]|[NR E]].
  - left. split; [exact IR|]. exists full. rewrite vn_length in L. auto.
  - right. auto.
Qed.

Lemma fullv_perm sn sn' smax v : Permutation sn sn' -> fullv sn smax v <-> fullv sn' smax v.
Proof.
  intros P. unfold fullv. split; intros H s Hs.
  - apply (vn_in_perm sn sn' s v P). now apply H.
  - apply (vn_in_perm sn sn' s v P). now apply H.
Qed.

Lemma in_range_perm sn sn' smax : Permutation sn sn' -> in_range sn smax <-> in_range sn' smax.
Proof.
  intros P. unfold in_range. split; intros H s Hs; apply H; eapply Permutation_in; try exact Hs;
    [now symmetry|assumption].
Qed.

Lemma vol_is_full_none_perm sn sn' smax : Permutation sn sn' ->
  vol_is_full sn smax = None <-> vol_is_full sn' smax = None.
Proof.
  intros P.
  destruct (vol_is_full_spec sn smax) as [[IR [f [E _]]]|[NR E]],
           (vol_is_full_spec sn' smax) as [[IR' [f' [E' _]]]|[NR' E']]; rewrite E, E';
    try (split; congruence).
  - exfalso. apply NR'. now apply (in_range_perm sn sn' smax P).
  - exfalso. apply NR. now apply (in_range_perm sn sn' smax P).
Qed.

(* the set of complete volume numbers *)
Lemma full_vols_In sn smax full v :
  vol_is_full sn smax = Some full ->
  In v (map fst (filter snd (combine (vol_numbers sn) full))) <->
  (In v (vol_numbers sn) /\ fullv sn smax v).
Proof.
  intros E. destruct (vol_is_full_spec sn smax) as [[IR [f [E' [L S]]]]|[_ E']]; [|congruence].
  rewrite E in E'. inversion E'; subst f. clear E'.
  rewrite in_map_iff. split.
  - intros [[v' b] [Ev H]]. cbn in Ev. subst v'. apply filter_In in H. destruct H as [H Hb].
    cbn in Hb. subst b. split; [now apply in_combine_l in H|]. now apply (S v true).
  - intros [Hv F]. destruct (in_combine_split full (vol_numbers sn) v) as [b Hb].
    { now rewrite vn_length. } { assumption. }
    assert (Hb' : In (v, b) (combine (vol_numbers sn) full)).
    { clear -Hb. revert Hb. generalize (vol_numbers sn) as a. intros a. revert a.
      induction full as [|y full IH]; intros [|x a] H; cbn in *; try tauto.
      destruct H as [E|H]; [inversion E; now left|right; now apply IH]. }
    exists (v, b). split; [reflexivity|]. apply filter_In. split; [assumption|]. cbn.
    now apply (S v b).
Qed.

Lemma vn_In_vol sn v : In v (vol_numbers sn) <-> exists s, In (s, v) (combine sn (vol_numbers sn)).
Proof.
  split.
  - intros H. apply in_combine_split; [now rewrite vn_length|assumption].
  - intros [s H]. now apply in_combine_r in H.
Qed.

Lemma vn_In_vol_perm sn sn' v : Permutation sn sn' -> In v (vol_numbers sn) <-> In v (vol_numbers sn').
Proof.
  intros P. rewrite !vn_In_vol. split; intros [s H]; exists s; now apply (vn_in_perm sn sn' s v P).
Qed.

(* ------------------------------------------------------------ more list helpers *)
Lemma in_combine_ex_l {A B} (a : list A) (b : list B) x :
  length a = length b -> In x a -> exists y, In (x, y) (combine a b).
Proof.
  revert b; induction a as [|z a IH]; intros [|w b] H Hx; cbn in *; try lia; try tauto.
  destruct Hx as [->|Hx]; [exists w; now left|].
  destruct (IH b ltac:(lia) Hx) as [y Hy]. exists y. now right.
Qed.

Lemma existsb_ext_in {A} (f g : A -> bool) l : (forall x, In x l -> f x = g x) -> existsb f l = existsb g l.
Proof.
  induction l as [|x l IH]; intros H; [reflexivity|]. cbn. rewrite (H x) by now left.
  rewrite IH; [reflexivity|]. intros y Hy. apply H. now right.
Qed.

Lemma Permutation_filter {A} (p : A -> bool) l l' : Permutation l l' -> Permutation (filter p l) (filter p l').
Proof.
  intros P. induction P as [|x l l' P IH|x y l|l l' l'' P1 IH1 P2 IH2]; cbn.
  - constructor.
  - destruct (p x); [now constructor|assumption].
  - destruct (p x), (p y); try reflexivity. apply perm_swap.
  - now transitivity (filter p l').
Qed.

Lemma firstn_incl {A} n (l : list A) x : In x (firstn n l) -> In x l.
Proof. intros H. rewrite <- (firstn_skipn n l). apply in_or_app. now left. Qed.

Lemma NoDup_app_l {A} (a b : list A) : NoDup (a ++ b) -> NoDup a.
Proof.
  induction a as [|x a IH]; cbn; intros H; [constructor|]. inversion H as [|? ? Hx Hr]; subst.
  constructor; [|now apply IH]. intros Hin. apply Hx. apply in_or_app. now left.
Qed.

Lemma NoDup_app_intro {A} (a b : list A) :
  NoDup a -> NoDup b -> (forall x, In x a -> In x b -> False) -> NoDup (a ++ b).
Proof.
  intros Ha Hb H. induction Ha as [|x a Hx Ha IH]; cbn; [assumption|]. constructor.
  - intros Hin. apply in_app_or in Hin. destruct Hin as [Hin|Hin]; [now apply Hx|].
    apply (H x); [now left|assumption].
  - apply IH. intros y Hy. apply H. now right.
Qed.

Lemma firstn_NoDup {A} n (l : list A) : NoDup l -> NoDup (firstn n l).
Proof. intros H. rewrite <- (firstn_skipn n l) in H. now apply NoDup_app_l in H. Qed.

Lemma select_length {A} (d : A) idx l : length (select d idx l) = length idx.
Proof. apply map_length. Qed.

Lemma select_perm {A} (d : A) idx l :
  Permutation idx (seq 0 (length l)) -> Permutation (select d idx l) l.
Proof.
  intros P. unfold select. rewrite (Permutation_map _ P). fold (select d (seq 0 (length l)) l).
  now rewrite select_seq.
Qed.

Lemma nth_select {A} (d d' : A) idx l k :
  (k < length idx)%nat -> nth k (select d idx l) d' = nth (nth k idx O) l d.
Proof.
  intros H. unfold select. rewrite (nth_indep _ d' (nth O l d)) by now rewrite map_length.
  apply (map_nth (fun i => nth i l d)).
Qed.

Lemma NoDup_list_prod {A B} (a : list A) (b : list B) : NoDup a -> NoDup b -> NoDup (list_prod a b).
Proof.
  intros Ha Hb. induction Ha as [|x a Hx Ha IH]; cbn; [constructor|].
  apply NoDup_app_intro; [| assumption |].
  - apply FinFun.Injective_map_NoDup; [|assumption]. intros u v E. now inversion E.
  - intros [u v] H1 H2. apply in_map_iff in H1. destruct H1 as [w [E _]]. inversion E; subst.
    apply in_prod_iff in H2. now destruct H2.
Qed.

(* ------------------------------------------------------------ invariance under permutation *)
(* number of complete volumes of a slice sequence *)
Definition nvols_seq (sn : list Z) (smax : Z) : option nat :=
  match vol_is_full sn smax with
  | None => None
  | Some full => Some (n_distinct (map fst (filter snd (combine (vol_numbers sn) full))))
  end.

Lemma n_vols_seq smax recs : n_vols false smax recs = nvols_seq (map sl recs) smax.
Proof. reflexivity. Qed.

Lemma nvols_seq_perm sn sn' smax : Permutation sn sn' -> nvols_seq sn smax = nvols_seq sn' smax.
Proof.
  intros P. unfold nvols_seq.
  destruct (vol_is_full sn smax) as [full|] eqn:E, (vol_is_full sn' smax) as [full'|] eqn:E'.
  - f_equal. apply n_distinct_ext. intros v.
    rewrite (full_vols_In sn smax full v E), (full_vols_In sn' smax full' v E').
    now rewrite (vn_In_vol_perm sn sn' v P), (fullv_perm sn sn' smax v P).
  - apply (vol_is_full_none_perm sn sn' smax P) in E'. congruence.
  - apply (vol_is_full_none_perm sn sn' smax P) in E. congruence.
  - reflexivity.
Qed.

Lemma all_full_iff sn smax full : vol_is_full sn smax = Some full ->
  forallb (fun b => b) full = true <-> (forall v, In v (vol_numbers sn) -> fullv sn smax v).
Proof.
  intros E. destruct (vol_is_full_spec sn smax) as [[IR [f [E' [L S]]]]|[_ E']]; [|congruence].
  rewrite E in E'. inversion E'; subst f. clear E'. rewrite forallb_forall. split.
  - intros H v Hv. destruct (in_combine_ex_l (vol_numbers sn) full v) as [b Hb];
      [now rewrite vn_length|assumption|].
    apply (S v b Hb). apply H. now apply in_combine_r in Hb.
  - intros H b Hb. destruct (in_combine_split (vol_numbers sn) full b) as [v Hv];
      [now rewrite vn_length|assumption|].
    apply (S v b Hv). apply H. now apply in_combine_l in Hv.
Qed.

Lemma all_full_perm sn sn' smax full full' : Permutation sn sn' ->
  vol_is_full sn smax = Some full -> vol_is_full sn' smax = Some full' ->
  forallb (fun b => b) full = forallb (fun b => b) full'.
Proof.
  intros P E E'.
  pose proof (all_full_iff sn smax full E) as H. pose proof (all_full_iff sn' smax full' E') as H'.
  assert (G : (forall v, In v (vol_numbers sn) -> fullv sn smax v) <->
              (forall v, In v (vol_numbers sn') -> fullv sn' smax v)).
  { split; intros F v Hv.
    - apply (fullv_perm sn sn' smax v P). apply F. now apply (vn_In_vol_perm sn sn' v P).
    - apply (fullv_perm sn sn' smax v P). apply F. now apply (vn_In_vol_perm sn sn' v P). }
  destruct (forallb (fun b => b) full), (forallb (fun b => b) full'); try reflexivity.
  - symmetry. apply H'. apply G. now apply H.
  - apply H. apply G. now apply H'.
Qed.

Lemma column_perm f j recs recs' : Permutation recs recs' -> Permutation (column f j recs) (column f j recs').
Proof. apply Permutation_map. Qed.

Lemma n_slices_perm recs recs' : Permutation recs recs' -> n_slices recs = n_slices recs'.
Proof. intros P. apply n_distinct_perm. now apply Permutation_map. Qed.

Lemma n_vols_perm smax recs recs' : Permutation recs recs' -> n_vols false smax recs = n_vols false smax recs'.
Proof. intros P. rewrite !n_vols_seq. apply nvols_seq_perm. now apply Permutation_map. Qed.

Lemma n_used_perm smax recs recs' : Permutation recs recs' -> n_used false smax recs = n_used false smax recs'.
Proof. intros P. unfold n_used. now rewrite (n_vols_perm smax recs recs' P), (n_slices_perm recs recs' P). Qed.

Lemma header_init_perm permit expd smax recs recs' : Permutation recs recs' ->
  header_init permit expd smax recs = header_init permit expd smax recs'.
Proof.
  intros P. unfold header_init.
  assert (chk_trunc expd recs = chk_trunc expd recs') as ->.
  { unfold chk_trunc. apply existsb_ext_in. intros [j e] _. cbn [fst snd].
    now rewrite (n_distinct_perm _ _ (column_perm cks j recs recs' P)). }
  destruct (chk_trunc expd recs' && negb permit); [reflexivity|].
  assert (Ps : Permutation (map sl recs) (map sl recs')) by now apply Permutation_map.
  destruct (vol_is_full (map sl recs) smax) as [full|] eqn:E,
           (vol_is_full (map sl recs') smax) as [full'|] eqn:E'.
  - now rewrite (all_full_perm _ _ smax full full' Ps E E').
  - apply (vol_is_full_none_perm _ _ smax Ps) in E'. congruence.
  - apply (vol_is_full_none_perm _ _ smax Ps) in E. congruence.
  - reflexivity.
Qed.

(* ------------------------------------------------------------ record-level view of the sort orders *)
Definition rec_le (a b : rec) : bool := key_le (keys a) (keys b).
Definition stage1 (recs : list rec) : list rec := isort rec_le recs.

Lemma stage1_perm recs : Permutation (stage1 recs) recs.
Proof. apply isort_perm. Qed.

(* C20 core: with pairwise distinct key tuples the stage-1 order does not depend on the record order *)
Lemma stage1_perm_invariant recs recs' :
  Permutation recs recs' -> NoDup (map keys recs) -> stage1 recs = stage1 recs'.
Proof.
  intros P N. unfold stage1. apply (isort_perm_invariant rec_le keys); unfold rec_le; try assumption.
  - intros x y. apply key_le_total.
  - intros x y z. apply key_le_trans.
  - intros x y. apply key_le_antisym.
  - intros x y E. rewrite E. apply lex_le_refl.
Qed.

Lemma select_stage1 recs : select dummy (lexsort (map keys recs)) recs = stage1 recs.
Proof. apply select_lexsort. Qed.

(* second stage as a function of the stage-1 sorted records only *)
Definition k2rows (vn : list Z) (full : list bool) : list (list Z) :=
  map (fun p => key2 (fst p) (snd p)) (combine vn full).
(* the volume assignment of the strict order, as a function of the key-sorted records *)
Definition labrow (r : rec) : list Z := tl (keys r).
Definition strict_vn (L : list rec) : list Z :=
  let gn := group_nos (map labrow L) in
  let rn := vol_numbers2 (combine gn (map sl L)) in
  map (fun p => fst p * (fold_right Z.max 0 rn + 1) + snd p) (combine gn rn).
Definition strict_vols (smax : Z) (L : list rec) : option (list Z * list bool) :=
  match vol_is_full_with (map sl L) (strict_vn L) smax with
  | None => None
  | Some full => Some (strict_vn L, full)
  end.
Definition stage2 (smax : Z) (L : list rec) : option (list rec) :=
  match strict_vols smax L with
  | None => None
  | Some (vn, full) => Some (select dummy (lexsort (k2rows vn full)) L)
  end.

Lemma full_length sn smax full : vol_is_full sn smax = Some full -> length full = length sn.
Proof.
  intros E. destruct (vol_is_full_spec sn smax) as [[_ [f [E' [L _]]]]|[_ E']]; congruence.
Qed.

Lemma viw_length sn vn smax full : vol_is_full_with sn vn smax = Some full -> length full = length vn.
Proof.
  intros E. destruct (viw_spec sn vn smax) as [[_ [f [E' [L _]]]]|[_ E']]; congruence.
Qed.

Lemma group_nos_aux_length prev g l : length (group_nos_aux prev g l) = length l.
Proof. revert prev g; induction l as [|x l IH]; intros; cbn; [reflexivity|]. now rewrite IH. Qed.
Lemma group_nos_length l : length (group_nos l) = length l.
Proof. destruct l; cbn; [reflexivity|]. now rewrite group_nos_aux_length. Qed.
Lemma vn2_aux_length seen l : length (vol_numbers2_aux seen l) = length l.
Proof. revert seen; induction l as [|x l IH]; intros; cbn; [reflexivity|]. now rewrite IH. Qed.

Lemma strict_vn_length L : length (strict_vn L) = length L.
Proof.
  unfold strict_vn, vol_numbers2. rewrite map_length, combine_length, vn2_aux_length, combine_length,
    group_nos_length, !map_length. lia.
Qed.

Lemma strict_vols_lengths smax L vn full : strict_vols smax L = Some (vn, full) ->
  length vn = length L /\ length full = length L.
Proof.
  unfold strict_vols. destruct (vol_is_full_with (map sl L) (strict_vn L) smax) as [f|] eqn:E; [|discriminate].
  intros H. inversion H; subst. rewrite (viw_length _ _ _ _ E), strict_vn_length. auto.
Qed.

Lemma k2rows_length_gen vn full n : length vn = n -> length full = n -> length (k2rows vn full) = n.
Proof. intros A B. unfold k2rows. rewrite map_length, combine_length. lia. Qed.

Lemma sn_stage1 recs : select 0 (lexsort (map keys recs)) (map sl recs) = map sl (stage1 recs).
Proof. change 0 with (sl dummy). now rewrite select_map, select_stage1. Qed.

Lemma lab_stage1 recs :
  select [] (lexsort (map keys recs)) (map (fun r => tl (keys r)) recs) = map labrow (stage1 recs).
Proof. change (@nil Z) with (labrow dummy). now rewrite (select_map labrow), select_stage1. Qed.

Lemma ssv_stage1 smax recs :
  strict_sort_volumes smax recs =
  match strict_vols smax (stage1 recs) with
  | None => None
  | Some (vn, full) => Some (lexsort (map keys recs), vn, full)
  end.
Proof.
  unfold strict_sort_volumes, strict_vols, strict_vn. cbv zeta. rewrite !sn_stage1, !lab_stage1.
  destruct (vol_is_full_with _ _ smax); reflexivity.
Qed.

Lemma strict_records smax recs :
  option_map (fun order => select dummy order recs) (strict_sort_order smax recs) = stage2 smax (stage1 recs).
Proof.
  unfold strict_sort_order, stage2. rewrite ssv_stage1.
  destruct (strict_vols smax (stage1 recs)) as [[vn full]|] eqn:E; [|reflexivity].
  destruct (strict_vols_lengths _ _ _ _ E) as [Lv Lf].
  cbn [option_map]. f_equal. fold (k2rows vn full).
  rewrite select_select, select_stage1; [reflexivity|].
  intros j Hj. apply lexsort_in_range in Hj.
  rewrite (k2rows_length_gen vn full _ Lv Lf), (Permutation_length (stage1_perm recs)) in Hj.
  now rewrite lexsort_length, map_length.
Qed.

Lemma strict_order_perm smax recs order : strict_sort_order smax recs = Some order ->
  Permutation order (seq 0 (length recs)).
Proof.
  unfold strict_sort_order. rewrite ssv_stage1.
  destruct (strict_vols smax (stage1 recs)) as [[vn full]|] eqn:E; [|discriminate].
  destruct (strict_vols_lengths _ _ _ _ E) as [Lv Lf].
  intros H. inversion H; subst order. clear H. fold (k2rows vn full).
  transitivity (lexsort (map keys recs)).
  - apply select_perm. rewrite lexsort_length.
    rewrite (lexsort_perm _), (k2rows_length_gen vn full _ Lv Lf), !map_length.
    now rewrite (Permutation_length (stage1_perm recs)).
  - rewrite lexsort_perm. now rewrite map_length.
Qed.

Lemma n_vols_strict smax recs :
  n_vols true smax recs =
  match strict_vols smax (stage1 recs) with
  | None => None
  | Some (vn, full) => Some (n_distinct (map fst (filter snd (combine vn full))))
  end.
Proof.
  unfold n_vols. rewrite ssv_stage1. destruct (strict_vols smax (stage1 recs)) as [[vn full]|]; reflexivity.
Qed.

Lemma lax_order_perm smax recs order : lax_sort_order smax recs = Some order ->
  Permutation order (seq 0 (length recs)).
Proof.
  unfold lax_sort_order. destruct (vol_is_full (map sl recs) smax) as [full|] eqn:E; [|discriminate].
  intros H. inversion H; subst order. clear H. rewrite lexsort_perm.
  rewrite map_length, !combine_length, vn_length, (full_length _ _ _ E), map_length, !Nat.min_id.
  reflexivity.
Qed.

Lemma ssi_valid strict smax recs idx : sorted_slice_indices strict smax recs = Some idx ->
  NoDup idx /\ (forall i, In i idx -> (i < length recs)%nat).
Proof.
  unfold sorted_slice_indices.
  destruct (if strict then strict_sort_order smax recs else lax_sort_order smax recs) as [order|] eqn:E;
    [|discriminate].
  destruct (n_used strict smax recs) as [n|]; [|discriminate]. intros H. inversion H; subst idx. clear H.
  assert (P : Permutation order (seq 0 (length recs))).
  { destruct strict; [now apply strict_order_perm in E|now apply lax_order_perm in E]. }
  split.
  - apply firstn_NoDup. eapply Permutation_NoDup; [symmetry; exact P|apply seq_NoDup].
  - intros i Hi. apply firstn_incl in Hi. apply (Permutation_in _ P) in Hi. apply in_seq in Hi. lia.
Qed.

(* ------------------------------------------------------------ counting the records of complete volumes *)
Lemma filter3_length {A B} (a : list A) (b : list B) (c : list bool) :
  length a = length c -> length b = length c ->
  length (filter (fun t : A * (B * bool) => snd (snd t)) (combine a (combine b c))) = length (filter (fun x => x) c).
Proof.
  revert a b; induction c as [|z c IH]; intros [|x a] [|y b] Ha Hb; cbn in *; try lia; try reflexivity.
  destruct z; cbn; rewrite IH by lia; reflexivity.
Qed.

Lemma map_proj12 {A B C} (a : list A) (b : list B) (c : list C) :
  length b = length c ->
  map (fun t : A * (B * C) => (fst t, fst (snd t))) (combine a (combine b c)) = combine a b.
Proof.
  revert b c; induction a as [|x a IH]; intros [|y b] [|z c] H; cbn in *; try lia; try reflexivity.
  f_equal. apply IH. lia.
Qed.

Lemma NoDup_map_filter {A B} (g : A -> B) (q : A -> bool) l : NoDup (map g l) -> NoDup (map g (filter q l)).
Proof.
  induction l as [|x l IH]; cbn; intros H; [constructor|]. inversion H as [|? ? Hx Hr]; subst.
  destruct (q x); cbn; [|now apply IH]. constructor; [|now apply IH].
  intros Hin. apply Hx. apply in_map_iff in Hin. destruct Hin as [y [E Hy]].
  apply filter_In in Hy. apply in_map_iff. exists y. tauto.
Qed.

Lemma in_combine3 {A B C} (a : list A) (b : list B) (c : list C) x y :
  length b = length c -> In (x, y) (combine a b) -> exists z, In (x, (y, z)) (combine a (combine b c)).
Proof.
  revert b c; induction a as [|u a IH]; intros [|v b] [|w c] H Hin; cbn in *; try lia; try tauto.
  destruct Hin as [E|Hin].
  - inversion E; subst. exists w. now left.
  - destruct (IH b c ltac:(lia) Hin) as [z Hz]. exists z. now right.
Qed.

Lemma full_count sn smax full : vol_is_full sn smax = Some full ->
  length (filter (fun b => b) full) =
  (n_distinct sn * n_distinct (map fst (filter snd (combine (vol_numbers sn) full))))%nat.
Proof.
  intros E. destruct (vol_is_full_spec sn smax) as [[IR [f [E' [L S]]]]|[_ E']]; [|congruence].
  rewrite E in E'. inversion E'; subst f. clear E'.
  pose proof (fun v => full_vols_In sn smax full v E) as FVI.
  set (vn := vol_numbers sn) in *.
  assert (Lv : length vn = length sn) by apply vn_length.
  set (T := combine sn (combine vn full)).
  set (q := fun t : Z * (Z * bool) => snd (snd t)).
  set (g := fun t : Z * (Z * bool) => (fst t, fst (snd t))).
  rewrite <- (filter3_length sn vn full) by lia. fold T. fold q.
  rewrite <- (map_length g (filter q T)).
  unfold n_distinct. rewrite <- prod_length. apply Permutation_length.
  assert (gT : map g T = combine sn vn) by (apply map_proj12; lia).
  apply NoDup_Permutation.
  - apply NoDup_map_filter. rewrite gT. apply vn_nodup.
  - apply NoDup_list_prod; apply NoDup_nodup.
  - intros [s v]. rewrite in_prod_iff, !nodup_In, FVI. split.
    + intros H. apply in_map_iff in H. destruct H as [[s' [v' b]] [Eg Ht]]. unfold g in Eg. cbn in Eg.
      inversion Eg; subst s' v'. apply filter_In in Ht. destruct Ht as [Ht Hb]. unfold q in Hb. cbn in Hb. subst b.
      assert (Hsv : In (s, v) (combine sn vn)).
      { rewrite <- gT. apply in_map_iff. exists (s, (v, true)). split; [reflexivity|exact Ht]. }
      split; [now apply in_combine_l in Hsv|]. split; [now apply in_combine_r in Hsv|].
      apply (S v true); [|reflexivity]. unfold T in Ht. now apply in_combine_r in Ht.
    + intros [Hs [Hv F]]. assert (Hsv : In (s, v) (combine sn vn)) by (apply F; now apply IR).
      destruct (in_combine3 sn vn full s v ltac:(lia) Hsv) as [b Hb]. fold T in Hb.
      assert (b = true) as ->.
      { apply (S v b); [|assumption]. unfold T in Hb. now apply in_combine_r in Hb. }
      apply in_map_iff. exists (s, (v, true)). split; [reflexivity|]. apply filter_In. now split.
Qed.

Lemma combine_swap_in {A B} (a : list A) (b : list B) x y : In (x, y) (combine a b) -> In (y, x) (combine b a).
Proof.
  revert b; induction a as [|u a IH]; intros [|v b] H; cbn in *; try tauto.
  destruct H as [E|H]; [inversion E; now left|right; now apply IH].
Qed.

Lemma full_vols_In_w sn vn smax full v :
  vol_is_full_with sn vn smax = Some full ->
  In v (map fst (filter snd (combine vn full))) <-> (In v vn /\ fullvw sn vn smax v).
Proof.
  intros E. destruct (viw_spec sn vn smax) as [[IR [f [E' [L S]]]]|[_ E']]; [|congruence].
  rewrite E in E'. inversion E'; subst f. clear E'.
  rewrite in_map_iff. split.
  - intros [[v' b] [Ev H]]. cbn in Ev. subst v'. apply filter_In in H. destruct H as [H Hb].
    cbn in Hb. subst b. split; [now apply in_combine_l in H|]. now apply (S v true).
  - intros [Hv F]. destruct (in_combine_split full vn v) as [b Hb]; [now symmetry|assumption|].
    apply combine_swap_in in Hb.
    exists (v, b). split; [reflexivity|]. apply filter_In. split; [assumption|]. cbn.
    now apply (S v b).
Qed.

(* the records of complete volumes: (number of distinct slice numbers) x (number of complete volumes),
   for any volume assignment in which a (slice, volume) pair occurs once *)
Lemma full_count_w sn vn smax full : vol_is_full_with sn vn smax = Some full ->
  length vn = length sn -> NoDup (combine sn vn) ->
  length (filter (fun b => b) full) =
  (n_distinct sn * n_distinct (map fst (filter snd (combine vn full))))%nat.
Proof.
  intros E Lv ND. destruct (viw_spec sn vn smax) as [[IR [f [E' [L S]]]]|[_ E']]; [|congruence].
  rewrite E in E'. inversion E'; subst f. clear E'.
  pose proof (fun v => full_vols_In_w sn vn smax full v E) as FVI.
  set (T := combine sn (combine vn full)).
  set (q := fun t : Z * (Z * bool) => snd (snd t)).
  set (g := fun t : Z * (Z * bool) => (fst t, fst (snd t))).
  rewrite <- (filter3_length sn vn full) by lia. fold T. fold q.
  rewrite <- (map_length g (filter q T)).
  unfold n_distinct. rewrite <- prod_length. apply Permutation_length.
  assert (gT : map g T = combine sn vn) by (apply map_proj12; lia).
  apply NoDup_Permutation.
  - apply NoDup_map_filter. now rewrite gT.
  - apply NoDup_list_prod; apply NoDup_nodup.
  - intros [s v]. rewrite in_prod_iff, !nodup_In, FVI. split.
    + intros H. apply in_map_iff in H. destruct H as [[s' [v' b]] [Eg Ht]]. unfold g in Eg. cbn in Eg.
      inversion Eg; subst s' v'. apply filter_In in Ht. destruct Ht as [Ht Hb]. unfold q in Hb. cbn in Hb. subst b.
      assert (Hsv : In (s, v) (combine sn vn)).
      { rewrite <- gT. apply in_map_iff. exists (s, (v, true)). split; [reflexivity|exact Ht]. }
      split; [now apply in_combine_l in Hsv|]. split; [now apply in_combine_r in Hsv|].
      apply (S v true); [|reflexivity]. unfold T in Ht. now apply in_combine_r in Ht.
    + intros [Hs [Hv F]]. assert (Hsv : In (s, v) (combine sn vn)) by (apply F; now apply IR).
      destruct (in_combine3 sn vn full s v ltac:(lia) Hsv) as [b Hb]. fold T in Hb.
      assert (b = true) as ->.
      { apply (S v b); [|assumption]. unfold T in Hb. now apply in_combine_r in Hb. }
      apply in_map_iff. exists (s, (v, true)). split; [reflexivity|]. apply filter_In. now split.
Qed.

(* ------------------------------------------------------------ sorted with the complete volumes first *)
Notation ann := (rec * (Z * bool))%type.
Definition annot (L : list rec) (vn : list Z) (full : list bool) : list ann := combine L (combine vn full).
Definition aflag (a : ann) : bool := snd (snd a).
Definition k2 (a : ann) : list Z := key2 (fst (snd a)) (snd (snd a)).
Definition k3 (a : ann) : list Z := [sl (fst a); fst (snd a); b2z (negb (snd (snd a)))].
Definition dann : ann := (dummy, (0, true)).

Lemma flag_first (kf : ann -> list Z) (AL : list ann) :
  (forall x y, aflag x = false -> aflag y = true -> key_le (kf x) (kf y) = false) ->
  let SAL := isort (fun a b => key_le (kf a) (kf b)) AL in
  firstn (length (filter aflag AL)) SAL = filter aflag SAL /\ Permutation (filter aflag SAL) (filter aflag AL).
Proof.
  intros H SAL.
  assert (P : Permutation SAL AL) by apply isort_perm.
  assert (Pf : Permutation (filter aflag SAL) (filter aflag AL)) by now apply Permutation_filter.
  split; [|exact Pf].
  rewrite <- (Permutation_length Pf).
  rewrite (sorted_partition (fun a b => key_le (kf a) (kf b) = true) aflag SAL) at 2.
  - apply firstn_app_exact.
  - apply isort_sorted; intros; [apply key_le_total|eapply key_le_trans; eassumption].
  - intros x y Hx Hy C. rewrite (H x y Hx Hy) in C. discriminate.
Qed.

Lemma k2_flag x y : aflag x = false -> aflag y = true -> key_le (k2 x) (k2 y) = false.
Proof.
  destruct x as [rx [vx fx]], y as [ry [vy fy]]. unfold aflag, k2, key2, key_le. cbn.
  intros -> ->. reflexivity.
Qed.

Lemma k3_flag x y : aflag x = false -> aflag y = true -> key_le (k3 x) (k3 y) = false.
Proof.
  destruct x as [rx [vx fx]], y as [ry [vy fy]]. unfold aflag, k3, key_le. cbn.
  intros -> ->. reflexivity.
Qed.

Lemma annot_fst L vn full : length vn = length L -> length full = length L -> map fst (annot L vn full) = L.
Proof. intros A B. unfold annot. apply map_fst_combine. rewrite combine_length. lia. Qed.

Lemma annot_k2 L vn full : length vn = length L -> length full = length L ->
  map k2 (annot L vn full) = k2rows vn full.
Proof.
  intros A B. unfold annot, k2rows.
  transitivity (map (fun p : Z * bool => key2 (fst p) (snd p)) (map snd (combine L (combine vn full)))).
  - rewrite map_map. reflexivity.
  - rewrite map_snd_combine by (rewrite combine_length; lia). reflexivity.
Qed.

Lemma combine_map_l {A B C} (f : A -> B) (a : list A) (c : list C) :
  combine (map f a) c = map (fun p => (f (fst p), snd p)) (combine a c).
Proof.
  revert c; induction a as [|x a IH]; intros [|z c]; cbn; try reflexivity. now rewrite IH.
Qed.

Lemma annot_k3 L vn full :
  map k3 (annot L vn full) =
  map (fun p : Z * (Z * bool) => [fst p; fst (snd p); b2z (negb (snd (snd p)))])
      (combine (map sl L) (combine vn full)).
Proof. unfold annot. rewrite combine_map_l, map_map. reflexivity. Qed.

Lemma annot_complete L vn full :
  length vn = length full ->
  map fst (filter aflag (annot L vn full)) = map fst (filter snd (combine L full)).
Proof.
  unfold annot. revert vn full.
  induction L as [|r L IH]; intros [|v vn] [|b full] H; cbn in *; try lia; try reflexivity.
  unfold aflag at 1. cbn. destruct b; cbn; rewrite IH by lia; reflexivity.
Qed.

(* the records selected by a fancy index computed on the annotated list *)
Lemma select_annot L vn full (kf : ann -> list Z) :
  length vn = length L -> length full = length L ->
  select dummy (lexsort (map kf (annot L vn full))) L =
  map fst (isort (fun a b => key_le (kf a) (kf b)) (annot L vn full)).
Proof.
  intros A B. rewrite <- (select_lexsort dann kf).
  rewrite <- (annot_fst L vn full A B) at 2.
  change dummy with (fst dann). apply select_map.
Qed.

Lemma vol_is_full_meaning : forall sn smax full,
  vol_is_full sn smax = Some full ->
  (forall s, In s sn -> 1 <= s <= smax) /\ length full = length sn /\
  (forall v b, In (v, b) (combine (vol_numbers sn) full) ->
     (b = true <-> forall s, 1 <= s <= smax -> In (s, v) (combine sn (vol_numbers sn)))) /\
  (forall s v, In (s, v) (combine sn (vol_numbers sn)) <->
     exists k : nat, v = Z.of_nat k /\ (k < count_occ Z.eq_dec sn s)%nat).
Proof.
  intros sn smax full E.
  destruct (vol_is_full_spec sn smax) as [[IR [f [E' [L S]]]]|[_ E']]; [|congruence].
  rewrite E in E'. inversion E'; subst f.
  split; [exact IR|]. split; [exact L|]. split; [exact S|]. intros s v. apply vn_in.
Qed.

(* ------------------------------------------------------------ (slice, volume) pairs occur once *)
Lemma pair_eqb_spec p q : pair_eqb p q = true <-> p = q.
Proof.
  destruct p as [a b], q as [c d]. unfold pair_eqb. cbn. rewrite andb_true_iff, !Z.eqb_eq.
  split; [intros [-> ->]; reflexivity|intros E; inversion E; auto].
Qed.

Definition cnt2 (seen : list (Z * Z)) (p : Z * Z) : nat := length (filter (pair_eqb p) seen).

Lemma vn2_lower seen l p c : In (p, c) (combine l (vol_numbers2_aux seen l)) -> Z.of_nat (cnt2 seen p) <= c.
Proof.
  revert seen; induction l as [|x l IH]; intros seen H; [destruct H|].
  cbn [vol_numbers2_aux combine In] in H. destruct H as [E|H].
  - inversion E; subst. unfold cnt2. lia.
  - apply IH in H. unfold cnt2 in *. cbn [filter] in H. destruct (pair_eqb p x); cbn [length] in H; lia.
Qed.

Lemma vn2_nodup seen l : NoDup (combine l (vol_numbers2_aux seen l)).
Proof.
  revert seen; induction l as [|x l IH]; intros seen; cbn [vol_numbers2_aux combine]; constructor; [|apply IH].
  intros H. apply vn2_lower in H. unfold cnt2 in H. cbn [filter] in H.
  rewrite (proj2 (pair_eqb_spec x x) eq_refl) in H. cbn [length] in H. lia.
Qed.

Lemma vn2_nonneg seen l r : In r (vol_numbers2_aux seen l) -> 0 <= r.
Proof.
  revert seen; induction l as [|x l IH]; intros seen H; [destruct H|]. cbn in H.
  destruct H as [<-|H]; [lia|now apply IH in H].
Qed.

Lemma fold_max_ge (l : list Z) r : In r l -> r <= fold_right Z.max 0 l.
Proof. induction l as [|x l IH]; intros H; [destruct H|]. cbn. destruct H as [->|H]; [lia|]. apply IH in H. lia. Qed.

Lemma combine3_map {A B C D} (F : A -> C -> D) (sn : list B) (gn : list A) (rn : list C) :
  combine sn (map (fun p => F (fst p) (snd p)) (combine gn rn)) =
  map (fun t : (A * B) * C => (snd (fst t), F (fst (fst t)) (snd t))) (combine (combine gn sn) rn).
Proof.
  revert gn rn; induction sn as [|s sn IH]; intros [|g gn] [|r rn]; cbn; try reflexivity.
  now rewrite IH.
Qed.

Lemma NoDup_map_inj_in {A B} (h : A -> B) l :
  (forall x y, In x l -> In y l -> h x = h y -> x = y) -> NoDup l -> NoDup (map h l).
Proof.
  intros Hi N. induction N as [|x l Hx N IH]; cbn; constructor.
  - intros Hin. apply in_map_iff in Hin. destruct Hin as [y [E Hy]].
    assert (y = x) by (apply Hi; [now right|now left|assumption]). subst. contradiction.
  - apply IH. intros a b Ha Hb. apply Hi; now right.
Qed.

Lemma strict_vn_nodup L : NoDup (combine (map sl L) (strict_vn L)).
Proof.
  unfold strict_vn. set (gn := group_nos (map labrow L)). set (sn := map sl L).
  set (rn := vol_numbers2 (combine gn sn)). set (M := fold_right Z.max 0 rn).
  rewrite (combine3_map (fun g r => g * (M + 1) + r) sn gn rn).
  apply NoDup_map_inj_in; [|apply vn2_nodup].
  intros [[g s] r] [[g' s'] r'] H1 H2 E. cbn [fst snd] in E. inversion E as [[Es Ev]]. subst s'.
  assert (B : forall g0 s0 r0, In (g0, s0, r0) (combine (combine gn sn) rn) -> 0 <= r0 <= M).
  { intros g0 s0 r0 H. apply in_combine_r in H. split; [now apply vn2_nonneg in H|now apply fold_max_ge]. }
  pose proof (B _ _ _ H1) as B1. pose proof (B _ _ _ H2) as B2.
  assert (g = g') by nia. subst g'. assert (r = r') by lia. now subst.
Qed.

(* ------------------------------------------------------------ the sorted records of both orders *)
(* the records named by the (untrimmed) sort order, as a sort of the annotated base list *)
Definition base_of (strict : bool) (recs : list rec) : list rec := if strict then stage1 recs else recs.
Definition kf_of (strict : bool) : ann -> list Z := if strict then k2 else k3.
(* volume numbers and is_full flags of the base list *)
Definition vols_of (strict : bool) (smax : Z) (L : list rec) : option (list Z * list bool) :=
  if strict then strict_vols smax L
  else match vol_is_full (map sl L) smax with
       | None => None
       | Some full => Some (vol_numbers (map sl L), full)
       end.

Lemma vols_of_viw (strict : bool) smax L vn full : vols_of strict smax L = Some (vn, full) ->
  vol_is_full_with (map sl L) vn smax = Some full /\ length vn = length L /\ length full = length L /\
  NoDup (combine (map sl L) vn).
Proof.
  destruct strict; cbn [vols_of].
  - intros H. destruct (strict_vols_lengths _ _ _ _ H) as [A B]. unfold strict_vols in H.
    destruct (vol_is_full_with (map sl L) (strict_vn L) smax) as [f|] eqn:E; [|discriminate].
    inversion H; subst. repeat split; try assumption. apply strict_vn_nodup.
  - destruct (vol_is_full (map sl L) smax) as [f|] eqn:E; [|discriminate]. intros H. inversion H; subst.
    repeat split.
    + exact E.
    + now rewrite vn_length, map_length.
    + now rewrite (full_length _ _ _ E), map_length.
    + apply vn_nodup.
Qed.

Lemma n_vols_vols_of (strict : bool) smax recs :
  n_vols strict smax recs =
  match vols_of strict smax (base_of strict recs) with
  | None => None
  | Some (vn, full) => Some (n_distinct (map fst (filter snd (combine vn full))))
  end.
Proof.
  destruct strict; cbn [vols_of base_of]; [apply n_vols_strict|].
  unfold n_vols. destruct (vol_is_full (map sl recs) smax); reflexivity.
Qed.

Lemma order_records (strict : bool) smax recs order :
  (if strict then strict_sort_order smax recs else lax_sort_order smax recs) = Some order ->
  exists vn full, vols_of strict smax (base_of strict recs) = Some (vn, full) /\
    select dummy order recs =
    map fst (isort (fun a b => key_le (kf_of strict a) (kf_of strict b)) (annot (base_of strict recs) vn full)).
Proof.
  destruct strict; cbn [base_of kf_of vols_of].
  - intros H. pose proof (strict_records smax recs) as R. rewrite H in R. cbn [option_map] in R.
    unfold stage2 in R. destruct (strict_vols smax (stage1 recs)) as [[vn full]|] eqn:E; [|discriminate].
    destruct (strict_vols_lengths _ _ _ _ E) as [A B].
    exists vn, full. split; [reflexivity|]. inversion R as [R']. rewrite R'.
    rewrite <- (annot_k2 _ vn full A B). now apply select_annot.
  - unfold lax_sort_order. destruct (vol_is_full (map sl recs) smax) as [full|] eqn:E; [|discriminate].
    intros H. inversion H; subst order. exists (vol_numbers (map sl recs)), full. split; [reflexivity|].
    rewrite <- annot_k3. apply select_annot; [now rewrite vn_length, map_length|].
    now rewrite (full_length _ _ _ E), map_length.
Qed.

Lemma kf_flag (strict : bool) x y : aflag x = false -> aflag y = true -> key_le (kf_of strict x) (kf_of strict y) = false.
Proof. destruct strict; [apply k2_flag|apply k3_flag]. Qed.

(* C20_truncated_complete_only *)
Lemma truncated_complete_only (strict : bool) smax recs idx nv :
  sorted_slice_indices strict smax recs = Some idx ->
  n_vols strict smax recs = Some nv -> (1 <= nv)%nat ->
  exists vn full, vols_of strict smax (base_of strict recs) = Some (vn, full) /\
    Permutation (select dummy idx recs) (map fst (filter snd (combine (base_of strict recs) full))) /\
    NoDup idx /\ (forall i, In i idx -> (i < length recs)%nat).
Proof.
  intros H NV Hnv. pose proof (ssi_valid strict smax recs idx H) as [ND IRg].
  unfold sorted_slice_indices in H.
  destruct (if strict then strict_sort_order smax recs else lax_sort_order smax recs) as [order|] eqn:EO;
    [|discriminate].
  unfold n_used in H. rewrite NV in H. inversion H; subst idx. clear H.
  destruct (order_records strict smax recs order EO) as [vn [full [E R]]].
  exists vn, full. split; [exact E|]. split; [|split; assumption].
  set (L := base_of strict recs) in *.
  assert (PL : Permutation L recs).
  { unfold L. destruct strict; cbn [base_of]; [apply stage1_perm|reflexivity]. }
  destruct (vols_of_viw strict smax L vn full E) as [EW [Lv [Lf NDp]]].
  rewrite select_firstn, R, firstn_map.
  set (AL := annot L vn full) in *.
  pose proof (flag_first (kf_of strict) AL (kf_flag strict)) as [F1 F2]. cbv zeta in F1, F2.
  (* the trim length is the number of records of complete volumes *)
  assert (Hn : (if (1 <? nv)%nat then n_slices recs * nv else n_slices recs)%nat = length (filter aflag AL)).
  { assert (Hc : length (filter aflag AL) = length (filter (fun b : bool => b) full)).
    { apply (filter3_length L vn full); lia. }
    rewrite Hc.
    rewrite (full_count_w _ vn smax full EW) by (rewrite ?map_length; assumption).
    assert (Ps : Permutation (map sl L) (map sl recs)) by now apply Permutation_map.
    rewrite n_vols_vols_of in NV. fold L in NV. rewrite E in NV. inversion NV as [Q']. rewrite Q'.
    unfold n_slices. rewrite (n_distinct_perm _ _ Ps).
    destruct (Nat.ltb_spec 1 nv); [reflexivity|]. assert (nv = 1%nat) as -> by lia. lia. }
  rewrite Hn, F1. rewrite F2. unfold AL.
  rewrite annot_complete; [reflexivity|lia].
Qed.

(* ------------------------------------------------------------ observables in terms of the sorted records *)
Section Obs.
  Variable fone : Z.
  Variables fdiv fmul : Z -> Z -> Z.
  Notation slope_of := (slope_of fone fdiv).
  Notation inter_of := (inter_of fdiv fmul).
  Notation load := (load fone fdiv fmul).

  Definition labels_of (nlab : nat) (dist : nat -> nat) (R : list rec) : list (option (list Z)) :=
    map (fun j => if Nat.ltb 1 (dist j) then Some (column labs j (filter (fun r => sl r =? 1) R)) else None)
        (seq 0 nlab).
  Definition obs_of (fp : bool) (nlab nsl nv : nat) (dist : nat -> nat) (R : list rec) : obs :=
    mkObs nsl nv (map pid R) (map (slope_of fp) R) (map (inter_of fp) R) (labels_of nlab dist R).
  Definition res_obs (r : res (list nat * obs)) : res obs :=
    match r with Ok p => Ok (snd p) | Err e => Err e end.

  Lemma load_ok strict permit fp expd smax nlab recs idx o :
    load strict permit fp expd smax nlab recs = Ok (idx, o) ->
    header_init permit expd smax recs = Ok tt /\
    sorted_slice_indices strict smax recs = Some idx /\
    exists nv, n_vols strict smax recs = Some nv /\ (1 <= nv)%nat /\
      o = obs_of fp nlab (n_slices recs) nv (fun j => n_distinct (column labs j recs)) (select dummy idx recs).
  Proof.
    unfold Model.load. destruct (header_init permit expd smax recs) as [[]|e] eqn:HI; [|discriminate].
    destruct (sorted_slice_indices strict smax recs) as [idx'|] eqn:SI; [|discriminate].
    destruct (n_vols strict smax recs) as [nv|] eqn:NV; [|discriminate].
    destruct nv as [|nv]; [discriminate|].
    intros H. inversion H; subst idx' o. clear H.
    split; [reflexivity|]. split; [reflexivity|]. exists (S nv). split; [reflexivity|]. split; [lia|].
    pose proof (ssi_valid strict smax recs idx SI) as [_ IRg].
    unfold obs_of, data_scaling, unscaled, volume_labels, labels_of. cbn [fst snd].
    rewrite (select_map_indep pid dummy (-1) idx recs IRg).
    rewrite (select_map_indep (slope_of fp) dummy 0 idx recs IRg).
    rewrite (select_map_indep (inter_of fp) dummy 0 idx recs IRg). reflexivity.
  Qed.

  (* C20_own_factors *)
  Lemma own_factors strict permit fp expd smax nlab recs idx o :
    load strict permit fp expd smax nlab recs = Ok (idx, o) ->
    NoDup idx /\ length (o_payload o) = length idx /\ length (o_slope o) = length idx /\
    length (o_inter o) = length idx /\
    forall k, (k < length idx)%nat ->
      exists r, nth_error recs (nth k idx O) = Some r /\
        nth k (o_payload o) (-1) = pid r /\
        nth k (o_slope o) 0 = slope_of fp r /\ nth k (o_inter o) 0 = inter_of fp r.
  Proof.
    intros H. destruct (load_ok _ _ _ _ _ _ _ _ _ H) as [_ [SI [nv [_ [_ ->]]]]].
    pose proof (ssi_valid strict smax recs idx SI) as [ND IRg].
    cbn [obs_of o_payload o_slope o_inter]. rewrite !map_length, select_length.
    repeat (split; [assumption || reflexivity|]).
    intros k Hk. set (i := nth k idx O).
    assert (Hi : (i < length recs)%nat) by (apply IRg; now apply nth_In).
    destruct (nth_error recs i) as [r|] eqn:Er; [|apply nth_error_None in Er; lia].
    exists r. split; [reflexivity|].
    assert (Hr : nth k (select dummy idx recs) dummy = r).
    { rewrite nth_select by assumption. fold i. now apply nth_error_nth. }
    repeat split.
    - rewrite (nth_indep _ (-1) (pid dummy)) by now rewrite map_length, select_length.
      now rewrite map_nth, Hr.
    - rewrite (nth_indep _ 0 (slope_of fp dummy)) by now rewrite map_length, select_length.
      now rewrite map_nth, Hr.
    - rewrite (nth_indep _ 0 (inter_of fp dummy)) by now rewrite map_length, select_length.
      now rewrite map_nth, Hr.
  Qed.

  (* the strict-sorted records do not depend on the record order *)
  Lemma n_vols_strict_stage1 smax recs recs' : stage1 recs = stage1 recs' ->
    n_vols true smax recs = n_vols true smax recs'.
  Proof. intros HS. rewrite !n_vols_strict. now rewrite HS. Qed.

  Lemma n_used_strict_stage1 smax recs recs' : Permutation recs recs' -> stage1 recs = stage1 recs' ->
    n_used true smax recs = n_used true smax recs'.
  Proof.
    intros P HS. unfold n_used. now rewrite (n_vols_strict_stage1 smax recs recs' HS), (n_slices_perm recs recs' P).
  Qed.

  Lemma strict_records_stage1 smax recs recs' :
    Permutation recs recs' -> stage1 recs = stage1 recs' ->
    option_map (fun idx => select dummy idx recs) (sorted_slice_indices true smax recs) =
    option_map (fun idx => select dummy idx recs') (sorted_slice_indices true smax recs').
  Proof.
    intros P HS. unfold sorted_slice_indices.
    rewrite <- (n_used_strict_stage1 smax recs recs' P HS).
    pose proof (strict_records smax recs) as R. pose proof (strict_records smax recs') as R'.
    rewrite <- HS in R'.
    destruct (strict_sort_order smax recs) as [o|], (strict_sort_order smax recs') as [o'|];
      cbn [option_map] in R, R'; try congruence.
    - destruct (n_used true smax recs) as [n|]; [|reflexivity]. cbn [option_map].
      rewrite !select_firstn. rewrite <- R' in R. inversion R as [R1]. now rewrite R1.
    - now destruct (n_used true smax recs).
  Qed.

  Lemma n_vols_strict_perm smax recs recs' : Permutation recs recs' -> NoDup (map keys recs) ->
    n_vols true smax recs = n_vols true smax recs'.
  Proof. intros P N. apply n_vols_strict_stage1. now apply stage1_perm_invariant. Qed.

  Lemma strict_records_perm smax recs recs' :
    Permutation recs recs' -> NoDup (map keys recs) ->
    option_map (fun idx => select dummy idx recs) (sorted_slice_indices true smax recs) =
    option_map (fun idx => select dummy idx recs') (sorted_slice_indices true smax recs').
  Proof. intros P N. apply strict_records_stage1; [assumption|now apply stage1_perm_invariant]. Qed.

  (* ---- lax order: unchanged when every record keeps its volume number *)
  Definition fb (smax : Z) (sn : list Z) (v : Z) : bool :=
    set_eqb (vol_slices sn (vol_numbers sn) v) (zrange 1 smax).

  Lemma full_as_map sn smax full : vol_is_full sn smax = Some full -> full = map (fb smax sn) (vol_numbers sn).
  Proof.
    unfold vol_is_full, vol_is_full_with. destruct (negb (forallb (fun s => memz s (zrange 1 smax)) sn)); [discriminate|].
    intros H. inversion H. apply map_ext_in. intros v Hv.
    apply (lookup_tab (fb smax sn)). now apply nodup_In.
  Qed.

  Lemma fb_fullv sn smax full v : vol_is_full sn smax = Some full -> In v (vol_numbers sn) ->
    fb smax sn v = true <-> fullv sn smax v.
  Proof.
    intros E Hv. destruct (vol_is_full_spec sn smax) as [[IR [f [E' [L S]]]]|[_ E']]; [|congruence].
    rewrite E in E'. inversion E'; subst f. clear E'.
    apply (S v (fb smax sn v)). rewrite (full_as_map sn smax full E) at 1.
    clear -Hv. induction (vol_numbers sn) as [|w l IH]; [destruct Hv|].
    cbn [map combine In]. destruct Hv as [->|Hv]; [now left|right; now apply IH].
  Qed.

  Lemma combine_map_diag {A B C} (g : B -> C) (a : list A) (b : list B) :
    combine a (combine b (map g b)) = map (fun p => (fst p, (snd p, g (snd p)))) (combine a b).
  Proof.
    revert b; induction a as [|x a IH]; intros [|y b]; cbn; try reflexivity. now rewrite IH.
  Qed.

  Lemma NoDup_map_proj {A B C} (g : A -> B) (h : A -> C) l :
    (forall a b, g a = g b -> h a = h b) -> NoDup (map h l) -> NoDup (map g l).
  Proof.
    intros H. induction l as [|x l IH]; cbn; intros N; [constructor|]. inversion N as [|? ? Hx Nr]; subst.
    constructor; [|now apply IH]. intros Hin. apply Hx. apply in_map_iff in Hin.
    destruct Hin as [y [E Hy]]. apply in_map_iff. exists y. split; [now apply H|assumption].
  Qed.

  Lemma lax_records_perm smax recs recs' :
    Permutation (combine recs (vol_numbers (map sl recs))) (combine recs' (vol_numbers (map sl recs'))) ->
    option_map (fun idx => select dummy idx recs) (sorted_slice_indices false smax recs) =
    option_map (fun idx => select dummy idx recs') (sorted_slice_indices false smax recs').
  Proof.
    intros HP.
    assert (P : Permutation recs recs').
    { apply (Permutation_map fst) in HP. now rewrite !map_fst_combine in HP by now rewrite vn_length, map_length. }
    assert (Ps : Permutation (map sl recs) (map sl recs')) by now apply Permutation_map.
    unfold sorted_slice_indices. rewrite <- (n_used_perm smax recs recs' P).
    destruct (lax_sort_order smax recs) as [o|] eqn:EO, (lax_sort_order smax recs') as [o'|] eqn:EO'.
    - destruct (n_used false smax recs) as [n|]; [|reflexivity]. cbn [option_map]. rewrite !select_firstn.
      destruct (order_records false smax recs o EO) as [vn [full [E0 R]]].
      destruct (order_records false smax recs' o' EO') as [vn' [full' [E0' R']]].
      cbn [base_of kf_of vols_of] in *.
      destruct (vol_is_full (map sl recs) smax) as [f1|] eqn:E; [|discriminate]. inversion E0; subst vn full. clear E0.
      destruct (vol_is_full (map sl recs') smax) as [f2|] eqn:E'; [|discriminate]. inversion E0'; subst vn' full'. clear E0'.
      rename f1 into full. rename f2 into full'.
      rewrite R, R'. do 3 f_equal.
      apply (isort_perm_invariant _ k3).
      + intros; apply key_le_total.
      + intros x y z; apply key_le_trans.
      + intros x y; apply key_le_antisym.
      + intros x y Ek. rewrite Ek. apply lex_le_refl.
      + unfold annot. rewrite (full_as_map _ smax full E), (full_as_map _ smax full' E'), !combine_map_diag.
        rewrite (Permutation_map _ HP). apply Permutation_refl'. apply map_ext_in.
        intros [r v] Hin. cbn [fst snd]. do 2 f_equal.
        assert (Hv' : In v (vol_numbers (map sl recs'))) by now apply in_combine_r in Hin.
        assert (Hv : In v (vol_numbers (map sl recs))) by now apply (vn_In_vol_perm _ _ v Ps).
        pose proof (fb_fullv _ smax full v E Hv) as F. pose proof (fb_fullv _ smax full' v E' Hv') as F'.
        pose proof (fullv_perm _ _ smax v Ps) as G.
        destruct (fb smax (map sl recs) v), (fb smax (map sl recs') v); try reflexivity.
        * symmetry. apply F'. apply G. now apply F.
        * apply F. apply G. now apply F'.
      + apply (NoDup_map_proj k3 (fun a : ann => (sl (fst a), fst (snd a)))).
        * intros [ra [va fa]] [rb [vb fb0]] Ek. unfold k3 in Ek. cbn in *. now inversion Ek.
        * unfold annot.
          replace (map (fun a : ann => (sl (fst a), fst (snd a)))
                       (combine recs (combine (vol_numbers (map sl recs)) full)))
            with (combine (map sl recs) (vol_numbers (map sl recs))); [apply vn_nodup|].
          rewrite <- (map_proj12 (map sl recs) (vol_numbers (map sl recs)) full)
            by now rewrite vn_length, (full_length _ _ _ E).
          rewrite combine_map_l, map_map. reflexivity.
    - exfalso. unfold lax_sort_order in EO, EO'.
      destruct (vol_is_full (map sl recs') smax) eqn:E'; [discriminate|].
      apply (vol_is_full_none_perm _ _ smax Ps) in E'. rewrite E' in EO. discriminate.
    - exfalso. unfold lax_sort_order in EO, EO'.
      destruct (vol_is_full (map sl recs) smax) eqn:E; [discriminate|].
      apply (vol_is_full_none_perm _ _ smax Ps) in E. rewrite E in EO'. discriminate.
    - now destruct (n_used false smax recs).
  Qed.

  (* equal sorted records + permuted records => equal observables *)
  Lemma obs_independent_gen (strict : bool) permit fp expd smax nlab recs recs' :
    Permutation recs recs' ->
    n_vols strict smax recs = n_vols strict smax recs' ->
    option_map (fun idx => select dummy idx recs) (sorted_slice_indices strict smax recs) =
    option_map (fun idx => select dummy idx recs') (sorted_slice_indices strict smax recs') ->
    res_obs (load strict permit fp expd smax nlab recs) = res_obs (load strict permit fp expd smax nlab recs').
  Proof.
    intros P HNV SR. unfold Model.load.
    rewrite (header_init_perm permit expd smax recs recs' P), <- HNV.
    destruct (header_init permit expd smax recs') as [[]|e0]; [|reflexivity].
    destruct (sorted_slice_indices strict smax recs) as [idx|] eqn:SI,
             (sorted_slice_indices strict smax recs') as [idx'|] eqn:SI'; cbn [option_map] in SR; try discriminate.
    - destruct (n_vols strict smax recs) as [[|nv]|]; try reflexivity. cbn [res_obs snd].
      pose proof (ssi_valid strict smax recs idx SI) as [_ IRg].
      pose proof (ssi_valid strict smax recs' idx' SI') as [_ IRg'].
      unfold data_scaling, unscaled, volume_labels. cbn [fst snd].
      rewrite (select_map_indep pid dummy (-1) idx recs IRg), (select_map_indep pid dummy (-1) idx' recs' IRg').
      rewrite (select_map_indep (slope_of fp) dummy 0 idx recs IRg), (select_map_indep (slope_of fp) dummy 0 idx' recs' IRg').
      rewrite (select_map_indep (inter_of fp) dummy 0 idx recs IRg), (select_map_indep (inter_of fp) dummy 0 idx' recs' IRg').
      inversion SR as [SR1]. rewrite SR1, (n_slices_perm recs recs' P). do 2 f_equal.
      apply map_ext. intros j. now rewrite (n_distinct_perm _ _ (column_perm labs j recs recs' P)).
    - destruct (n_vols strict smax recs); reflexivity.
  Qed.

  (* C20_order_independent *)
  Lemma order_independent permit fp expd smax nlab recs recs' :
    Permutation recs recs' -> NoDup (map keys recs) ->
    res_obs (load true permit fp expd smax nlab recs) = res_obs (load true permit fp expd smax nlab recs').
  Proof.
    intros P N. apply obs_independent_gen; [assumption|now apply n_vols_strict_perm|now apply strict_records_perm].
  Qed.

  (* key tuples that are NOT pairwise distinct (V4 diffusion): the stable initial sort keeps records
     with identical key tuples in record order, and the volumes inside a key group are numbered by
     counting repeats in that order.  So the result can only be independent of those permutations
     that keep, for every key tuple, the subsequence of the records carrying it. *)
  Definition same_key (k : list Z) (r : rec) : bool := zl_eqb (keys r) k.

  Lemma zl_eqb_iff a b : zl_eqb a b = true <-> a = b.
  Proof.
    revert b; induction a as [|x a IH]; intros [|y b]; cbn; split; intros H; try discriminate; try reflexivity.
    - apply andb_true_iff in H. destruct H as [H1 H2]. apply Z.eqb_eq in H1. apply IH in H2. now subst.
    - inversion H; subst. rewrite Z.eqb_refl. now apply IH.
  Qed.

  Lemma stage1_stable_invariant recs recs' :
    (forall k, filter (same_key k) recs = filter (same_key k) recs') -> stage1 recs = stage1 recs'.
  Proof.
    intros H. unfold stage1.
    apply (isort_stable_invariant rec_le (fun a b => zl_eqb (keys b) (keys a))).
    - intros x y E. apply zl_eqb_iff in E. unfold rec_le. rewrite E. apply lex_le_refl.
    - intros x y. destruct (zl_eqb (keys y) (keys x)) eqn:E1, (zl_eqb (keys x) (keys y)) eqn:E2; try reflexivity.
      + apply zl_eqb_iff in E1. rewrite E1 in E2. now rewrite (proj2 (zl_eqb_iff _ _) eq_refl) in E2.
      + apply zl_eqb_iff in E2. rewrite E2 in E1. now rewrite (proj2 (zl_eqb_iff _ _) eq_refl) in E1.
    - intros x y z E1 E2. apply zl_eqb_iff in E1, E2. apply zl_eqb_iff. congruence.
    - intros x. now apply zl_eqb_iff.
    - intros x y L1 L2. apply zl_eqb_iff. symmetry. now apply key_le_antisym.
    - intros x y z. apply key_le_trans.
    - intros x y. apply key_le_total.
    - intros k. apply (H (keys k)).
  Qed.

  Lemma stage1_stable recs k : filter (same_key k) (stage1 recs) = filter (same_key k) recs.
  Proof.
    unfold stage1, same_key.
    destruct (filter (fun r => zl_eqb (keys r) k) recs) as [|x xs] eqn:E.
    - (* no record with this key *)
      assert (H : forall r, In r (isort rec_le recs) -> zl_eqb (keys r) k = false).
      { intros r Hr. apply isort_in in Hr. destruct (zl_eqb (keys r) k) eqn:Er; [|reflexivity].
        assert (In r (filter (fun r => zl_eqb (keys r) k) recs)) by (apply filter_In; now split).
        rewrite E in H. destruct H. }
      induction (isort rec_le recs) as [|y l IH]; [reflexivity|]. cbn. rewrite (H y) by now left.
      apply IH. intros r Hr. apply H. now right.
    - assert (Hx : In x (filter (fun r => zl_eqb (keys r) k) recs)) by (rewrite E; now left).
      apply filter_In in Hx. destruct Hx as [_ Kx]. apply zl_eqb_iff in Kx. subst k. rewrite <- E.
      apply (isort_filter rec_le (fun a b => zl_eqb (keys b) (keys a))).
      + intros a b Eab. apply zl_eqb_iff in Eab. unfold rec_le. rewrite Eab. apply lex_le_refl.
      + intros a b. destruct (zl_eqb (keys b) (keys a)) eqn:E1, (zl_eqb (keys a) (keys b)) eqn:E2; try reflexivity.
        * apply zl_eqb_iff in E1. rewrite E1 in E2. now rewrite (proj2 (zl_eqb_iff _ _) eq_refl) in E2.
        * apply zl_eqb_iff in E2. rewrite E2 in E1. now rewrite (proj2 (zl_eqb_iff _ _) eq_refl) in E1.
      + intros a b c E1 E2. apply zl_eqb_iff in E1, E2. apply zl_eqb_iff. congruence.
  Qed.

  (* C20_order_independent_stable *)
  Lemma order_independent_stable permit fp expd smax nlab recs recs' :
    Permutation recs recs' -> (forall k, filter (same_key k) recs = filter (same_key k) recs') ->
    res_obs (load true permit fp expd smax nlab recs) = res_obs (load true permit fp expd smax nlab recs').
  Proof.
    intros P H. pose proof (stage1_stable_invariant recs recs' H) as HS.
    apply obs_independent_gen; [assumption|now apply n_vols_strict_stage1|now apply strict_records_stage1].
  Qed.

  (* C20_lax_order_preserving *)
  Lemma lax_order_preserving permit fp expd smax nlab recs recs' :
    Permutation (combine recs (vol_numbers (map sl recs))) (combine recs' (vol_numbers (map sl recs'))) ->
    res_obs (load false permit fp expd smax nlab recs) = res_obs (load false permit fp expd smax nlab recs').
  Proof.
    intros HP.
    assert (P : Permutation recs recs').
    { apply (Permutation_map fst) in HP. now rewrite !map_fst_combine in HP by now rewrite vn_length, map_length. }
    apply obs_independent_gen; [assumption|now apply n_vols_perm|now apply lax_records_perm].
  Qed.
End Obs.

(* ------------------------------------------------------------ strict order, label level *)
Lemma zrange_NoDup lo hi : NoDup (zrange lo hi).
Proof.
  unfold zrange. apply FinFun.Injective_map_NoDup; [|apply seq_NoDup]. intros a b E. lia.
Qed.

Lemma sorted_app_le (a b : list Z) (k : Z) :
  StronglySorted Z.le a -> StronglySorted Z.le b -> (forall x, In x a -> x <= k) -> (forall y, In y b -> k <= y) ->
  StronglySorted Z.le (a ++ b).
Proof.
  intros Sa Sb Ha Hb. induction Sa as [|x a Sa IH Fx]; [assumption|]. cbn. constructor.
  - apply IH. intros y Hy. apply Ha. now right.
  - rewrite Forall_forall in *. intros y Hy. apply in_app_or in Hy. destruct Hy as [Hy|Hy]; [now apply Fx|].
    specialize (Ha x (or_introl eq_refl)). specialize (Hb y Hy). lia.
Qed.

Lemma repeat_sorted (x : Z) n : StronglySorted Z.le (repeat x n).
Proof.
  induction n as [|n IH]; cbn; constructor; [assumption|].
  rewrite Forall_forall. intros y Hy. apply repeat_spec in Hy. lia.
Qed.

Lemma filter_all_true {A} (p : A -> bool) l : (forall x, In x l -> p x = true) -> filter p l = l.
Proof.
  induction l as [|x l IH]; intros H; [reflexivity|]. cbn. rewrite (H x) by now left.
  f_equal. apply IH. intros y Hy. apply H. now right.
Qed.

Lemma StronglySorted_map_in {A B} (R : A -> A -> Prop) (R' : B -> B -> Prop) (f : A -> B) l :
  StronglySorted R l -> (forall a b, In a l -> In b l -> R a b -> R' (f a) (f b)) -> StronglySorted R' (map f l).
Proof.
  intros S. induction S as [|x l S IH F]; intros H; [constructor|]. cbn. constructor.
  - apply IH. intros a b Ha Hb. apply H; now right.
  - rewrite Forall_forall in *. intros y Hy. apply in_map_iff in Hy. destruct Hy as [b [<- Hb]].
    apply H; [now left|now right|now apply F].
Qed.

Lemma sorted_lt_NoDup (l : list Z) : StronglySorted Z.lt l -> NoDup l.
Proof.
  intros S. induction S as [|x l S IH F]; constructor; [|assumption].
  rewrite Forall_forall in F. intros Hx. specialize (F x Hx). lia.
Qed.

Lemma zrange_sorted lo hi : StronglySorted Z.lt (zrange lo hi).
Proof.
  unfold zrange. generalize (Z.to_nat (hi + 1 - lo)) as n. intros n.
  assert (G : forall k, StronglySorted Z.lt (map (fun i => lo + Z.of_nat i) (seq k n))).
  { induction n as [|n IH]; intros k; cbn; constructor; [apply IH|].
    rewrite Forall_forall. intros y Hy. apply in_map_iff in Hy. destruct Hy as [i [<- Hi]]. apply in_seq in Hi. lia. }
  apply G.
Qed.

(* keys r = slice number :: label keys; the slice number is the least significant sort key *)
Notation lab := labrow.
Lemma zl_eqb_spec a b : zl_eqb a b = true <-> a = b.
Proof.
  revert b; induction a as [|x a IH]; intros [|y b]; cbn; split; intros H; try discriminate; try reflexivity.
  - apply andb_true_iff in H. destruct H as [H1 H2]. apply Z.eqb_eq in H1. apply IH in H2. now subst.
  - inversion H; subst. rewrite Z.eqb_refl. now apply IH.
Qed.
Definition same_lab (x r : rec) : bool := zl_eqb (lab r) (lab x).

Lemma lex_snoc_le u v x y : length u = length v -> lex_le (u ++ [x]) (v ++ [y]) = true -> lex_le u v = true.
Proof.
  revert v; induction u as [|a u IH]; intros [|b v] L H; cbn in *; try lia; try reflexivity.
  destruct (a <? b); [reflexivity|]. destruct (b <? a); [discriminate|]. apply IH; [lia|assumption].
Qed.

Lemma lex_snoc_same u x y : lex_le (u ++ [x]) (u ++ [y]) = (x <=? y).
Proof.
  induction u as [|a u IH]; cbn.
  - destruct (Z.ltb_spec x y), (Z.ltb_spec y x), (Z.leb_spec x y); try lia; reflexivity.
  - now rewrite Z.ltb_irrefl.
Qed.

Lemma lex_snoc_gt u v x y : length u = length v -> lex_le u v = true -> u <> v -> lex_le (v ++ [y]) (u ++ [x]) = false.
Proof.
  revert v; induction u as [|a u IH]; intros [|b v] L H N; cbn in *; try lia; try congruence.
  destruct (Z.ltb_spec a b), (Z.ltb_spec b a); try lia; try reflexivity; try discriminate.
  assert (a = b) by lia. subst. apply IH; [lia|assumption|congruence].
Qed.

(* a condition on the record list alone *)
Record keyed (smax : Z) (l : list rec) : Prop := {
  k_shape : forall r, In r l -> keys r = sl r :: lab r;
  k_len : forall a b, In a l -> In b l -> length (keys a) = length (keys b);
  k_range : forall r, In r l -> 1 <= sl r <= smax
}.

Lemma keyed_incl smax l l' : (forall r, In r l' -> In r l) -> keyed smax l -> keyed smax l'.
Proof. intros I [H1 H2 H3]. split; auto. Qed.

Lemma keyed_perm smax l l' : Permutation l l' -> keyed smax l -> keyed smax l'.
Proof. intros P. apply keyed_incl. intros r. apply Permutation_in. now symmetry. Qed.

Definition klt (a b : rec) : Prop := rec_le a b = true /\ keys a <> keys b.

Lemma rec_le_keys smax l a b : keyed smax l -> In a l -> In b l ->
  rec_le a b = lex_le (rev (lab a) ++ [sl a]) (rev (lab b) ++ [sl b]).
Proof.
  intros K Ha Hb. unfold rec_le, key_le. rewrite (k_shape _ _ K a Ha), (k_shape _ _ K b Hb). reflexivity.
Qed.

Lemma lab_len smax l a b : keyed smax l -> In a l -> In b l -> length (rev (lab a)) = length (rev (lab b)).
Proof.
  intros K Ha Hb. pose proof (k_len _ _ K a b Ha Hb) as E.
  rewrite (k_shape _ _ K a Ha), (k_shape _ _ K b Hb) in E. cbn in E. rewrite !rev_length. lia.
Qed.

Lemma StronglySorted_filter {A} (R : A -> A -> Prop) (p : A -> bool) l :
  StronglySorted R l -> StronglySorted R (filter p l).
Proof.
  intros S. induction S as [|x l S IH F]; [constructor|]. cbn. destruct (p x); [|assumption].
  constructor; [assumption|]. rewrite Forall_forall in *. intros y Hy. apply filter_In in Hy. now apply F.
Qed.

Lemma sorted_partition_in {A} (R : A -> A -> Prop) (p : A -> bool) l :
  StronglySorted R l -> (forall x y, In x l -> In y l -> p x = false -> p y = true -> ~ R x y) ->
  l = filter p l ++ filter (fun x => negb (p x)) l.
Proof.
  intros S. induction S as [|a r Sr IH F]; intros H; [reflexivity|].
  assert (H' : forall x y, In x r -> In y r -> p x = false -> p y = true -> ~ R x y)
    by (intros x y Hx Hy; apply H; now right).
  cbn [filter]. destruct (p a) eqn:E; cbn [negb app].
  - now rewrite <- IH.
  - rewrite Forall_forall in F.
    assert (Hn : forall y, In y r -> p y = false).
    { intros y Hy. destruct (p y) eqn:Ey; [|reflexivity]. exfalso.
      exact (H a y (or_introl eq_refl) (or_intror Hy) E Ey (F y Hy)). }
    assert (filter p r = []) as ->.
    { clear -Hn. induction r as [|y r IHr]; [reflexivity|]. cbn. rewrite (Hn y) by now left.
      apply IHr. intros z Hz. apply Hn. now right. }
    rewrite (filter_all_true (fun x => negb (p x)) r); [reflexivity|].
    intros y Hy. now rewrite (Hn y Hy).
Qed.

Fixpoint groups (fuel : nat) (l : list rec) : list (list rec) :=
  match fuel, l with
  | S f, x :: _ => filter (same_lab x) l :: groups f (filter (fun r => negb (same_lab x r)) l)
  | _, _ => []
  end.

Definition one_label (G : list rec) : Prop := forall a b, In a G -> In b G -> lab a = lab b.
Definition slice_sorted (G : list rec) : Prop := StronglySorted Z.lt (map sl G).
(* non-empty runs of one label each, the labels of different runs different *)
Fixpoint sep (Gs : list (list rec)) : Prop :=
  match Gs with
  | [] => True
  | G :: Gs' => G <> [] /\ one_label G /\ (forall a b, In a G -> In b (concat Gs') -> lab a <> lab b) /\ sep Gs'
  end.

Lemma groups_spec smax : forall fuel l,
  keyed smax l -> StronglySorted klt l -> (length l <= fuel)%nat ->
  concat (groups fuel l) = l /\ sep (groups fuel l) /\ Forall slice_sorted (groups fuel l).
Proof.
  induction fuel as [|f IH]; intros l K S Len.
  - destruct l; [cbn; auto|cbn in Len; lia].
  - destruct l as [|x l']; [cbn; auto|]. cbn [groups].
    set (l := x :: l') in *. set (p := same_lab x).
    assert (Hx : In x l) by now left.
    assert (px : p x = true) by (unfold p, same_lab; now apply zl_eqb_spec).
    assert (Hhead : forall a, In a l -> p a = false -> lex_le (rev (lab x)) (rev (lab a)) = true /\ rev (lab x) <> rev (lab a)).
    { intros a Ha Pa. destruct Ha as [<-|Ha]; [congruence|].
      inversion S as [|? ? _ F]; subst. rewrite Forall_forall in F. destruct (F a Ha) as [Le _].
      rewrite (rec_le_keys smax l x a K Hx (or_intror Ha)) in Le. split.
      - eapply lex_snoc_le; [|exact Le]. exact (lab_len smax l x a K Hx (or_intror Ha)).
      - intros E. apply (f_equal (@rev Z)) in E. rewrite !rev_involutive in E.
        unfold p, same_lab in Pa. rewrite <- E in Pa. rewrite (proj2 (zl_eqb_spec _ _) eq_refl) in Pa. discriminate. }
    assert (Part : l = filter p l ++ filter (fun r => negb (p r)) l).
    { apply (sorted_partition_in klt); [assumption|].
      intros a b Ha Hb Pa Pb [Le _]. destruct (Hhead a Ha Pa) as [L1 N1].
      rewrite (rec_le_keys smax l a b K Ha Hb) in Le.
      apply zl_eqb_spec in Pb. rewrite Pb in Le.
      rewrite (lex_snoc_gt (rev (lab x)) (rev (lab a)) (sl b) (sl a)) in Le; [discriminate| |assumption|assumption].
      exact (lab_len smax l x a K Hx Ha). }
    assert (Lr : (length (filter (fun r => negb (p r)) l) <= f)%nat).
    { apply (f_equal (@length rec)) in Part. rewrite app_length in Part.
      assert (1 <= length (filter p l))%nat; [|unfold l in *; cbn [length] in *; lia].
      change (filter p l) with (if p x then x :: filter p l' else filter p l'). rewrite px. cbn. lia. }
    assert (K' : keyed smax (filter (fun r => negb (p r)) l)).
    { apply (keyed_incl smax l); [|assumption]. intros r Hr. now apply filter_In in Hr. }
    destruct (IH (filter (fun r => negb (p r)) l) K' (StronglySorted_filter _ _ _ S) Lr) as [C1 [C2 C3]].
    split; [|split].
    + cbn [concat]. fold p. rewrite C1. now rewrite <- Part.
    + cbn [sep]. fold p. split; [|split; [|split; [|exact C2]]].
      * intros E. assert (In x (filter p l)) by (apply filter_In; now split). rewrite E in H. destruct H.
      * intros a b Ha Hb. apply filter_In in Ha, Hb.
        destruct Ha as [_ Pa], Hb as [_ Pb]. apply zl_eqb_spec in Pa, Pb. congruence.
      * intros a b Ha Hb. rewrite C1 in Hb. apply filter_In in Ha, Hb.
        destruct Ha as [_ Pa], Hb as [_ Pb]. apply zl_eqb_spec in Pa. intros E.
        unfold p, same_lab in Pb. rewrite <- E, Pa in Pb. rewrite (proj2 (zl_eqb_spec _ _) eq_refl) in Pb. discriminate.
    + constructor; [|exact C3]. fold p. unfold slice_sorted.
      apply (StronglySorted_map_in klt); [now apply StronglySorted_filter|].
      intros a b Ha Hb [Le Ne]. apply filter_In in Ha, Hb. destruct Ha as [Ha Pa], Hb as [Hb Pb].
      apply zl_eqb_spec in Pa, Pb.
      rewrite (rec_le_keys smax l a b K Ha Hb), Pa, Pb, lex_snoc_same in Le.
      rewrite (k_shape _ _ K a Ha), (k_shape _ _ K b Hb), Pa, Pb in Ne.
      assert (sl a <> sl b) by congruence. lia.
Qed.

Lemma stage1_sorted recs : NoDup (map keys recs) -> StronglySorted klt (stage1 recs).
Proof.
  intros N. unfold klt. apply (sorted_strict rec_le keys).
  - apply isort_sorted; unfold rec_le; intros; [apply key_le_total|eapply key_le_trans; eassumption].
  - eapply Permutation_NoDup; [|exact N]. apply Permutation_map. symmetry. apply stage1_perm.
Qed.

(* ---- group numbers of a separated concatenation *)
Fixpoint gnums (g : Z) (Gs : list (list rec)) : list Z :=
  match Gs with [] => [] | G :: Gs' => repeat g (length G) ++ gnums (g + 1) Gs' end.

Lemma gna_block prev g G rest : (forall r, In r G -> lab r = prev) ->
  group_nos_aux prev g (map lab G ++ rest) = repeat g (length G) ++ group_nos_aux prev g rest.
Proof.
  induction G as [|x G IH]; intros H; [reflexivity|]. cbn [map app group_nos_aux length repeat].
  rewrite (H x) by now left. rewrite (proj2 (zl_eqb_spec prev prev) eq_refl). f_equal.
  apply IH. intros r Hr. apply H. now right.
Qed.

Lemma gna_groups Gs : forall prev g, sep Gs -> (forall r, In r (concat Gs) -> lab r <> prev) ->
  group_nos_aux prev g (map lab (concat Gs)) = gnums (g + 1) Gs.
Proof.
  induction Gs as [|G Gs IH]; intros prev g S H; [reflexivity|].
  destruct S as [NE [OL [SP S']]]. destruct G as [|x G0]; [contradiction|].
  cbn [concat app map group_nos_aux gnums length repeat].
  assert (Hx : zl_eqb (lab x) prev = false).
  { destruct (zl_eqb (lab x) prev) eqn:E; [|reflexivity]. apply zl_eqb_spec in E. exfalso.
    apply (H x); [now left|assumption]. }
  rewrite Hx. f_equal. rewrite map_app, gna_block.
  - f_equal. apply IH; [assumption|]. intros r Hr. apply not_eq_sym. apply (SP x r); [now left|assumption].
  - intros r Hr. apply (OL r x); [now right|now left].
Qed.

Lemma group_nos_groups Gs : sep Gs -> group_nos (map lab (concat Gs)) = gnums 0 Gs.
Proof.
  destruct Gs as [|G Gs]; [reflexivity|]. intros [NE [OL [SP S']]]. destruct G as [|x G0]; [contradiction|].
  cbn [concat app map group_nos gnums length repeat]. f_equal. rewrite map_app, gna_block.
  - f_equal. apply gna_groups; [assumption|]. intros r Hr. apply not_eq_sym. apply (SP x r); [now left|assumption].
  - intros r Hr. apply (OL r x); [now right|now left].
Qed.

Lemma gnums_ge g Gs v : In v (gnums g Gs) -> g <= v.
Proof.
  revert g; induction Gs as [|G Gs IH]; intros g H; [destruct H|]. cbn in H. apply in_app_or in H.
  destruct H as [H|H]; [apply repeat_spec in H; lia|apply IH in H; lia].
Qed.

Lemma gnums_length g Gs : length (gnums g Gs) = length (concat Gs).
Proof. revert g; induction Gs as [|G Gs IH]; intros g; [reflexivity|]. cbn. now rewrite !app_length, repeat_length, IH. Qed.

Lemma gnums_sorted g Gs : StronglySorted Z.le (gnums g Gs).
Proof.
  revert g; induction Gs as [|G Gs IH]; intros g; [constructor|]. cbn [gnums].
  apply (sorted_app_le _ _ g); [apply repeat_sorted|apply IH| |].
  - intros x Hx. apply repeat_spec in Hx. lia.
  - intros y Hy. apply gnums_ge in Hy. lia.
Qed.

(* ---- repeat numbers: all zero when the (group, slice) pairs are distinct *)
Lemma vn2_zero seen l : NoDup l -> (forall p, In p l -> cnt2 seen p = O) ->
  vol_numbers2_aux seen l = repeat 0 (length l).
Proof.
  revert seen; induction l as [|x l IH]; intros seen N H; [reflexivity|].
  inversion N as [|? ? Hx N']; subst. cbn [vol_numbers2_aux length repeat].
  pose proof (H x (or_introl eq_refl)) as H0. unfold cnt2 in H0. rewrite H0. f_equal.
  apply IH; [assumption|]. intros p Hp. unfold cnt2. cbn [filter].
  destruct (pair_eqb p x) eqn:E; [apply pair_eqb_spec in E; subst; contradiction|].
  apply (H p). now right.
Qed.

Lemma combine_app {A B} (a a' : list A) (b b' : list B) : length a = length b ->
  combine (a ++ a') (b ++ b') = combine a b ++ combine a' b'.
Proof.
  revert b; induction a as [|x a IH]; intros [|y b] H; cbn in *; try lia; [reflexivity|]. f_equal. apply IH. lia.
Qed.

Lemma NoDup_combine_r {A B} (a : list A) (b : list B) : NoDup b -> NoDup (combine a b).
Proof.
  revert a; induction b as [|y b IH]; intros [|x a] N; cbn; try constructor.
  - inversion N; subst. intros H. apply in_combine_r in H. contradiction.
  - inversion N; subst. now apply IH.
Qed.

Lemma pairs_nodup Gs : forall g, Forall slice_sorted Gs -> NoDup (combine (gnums g Gs) (map sl (concat Gs))).
Proof.
  induction Gs as [|G Gs IH]; intros g F; [constructor|]. inversion F as [|? ? SG F']; subst.
  cbn [gnums concat]. rewrite map_app, combine_app by now rewrite repeat_length, map_length.
  apply NoDup_app_intro; [apply NoDup_combine_r; now apply sorted_lt_NoDup|now apply IH|].
  intros [v s] H1 H2. apply in_combine_l in H1, H2. apply repeat_spec in H1. apply gnums_ge in H2. lia.
Qed.

Lemma fold_max_repeat0 n : fold_right Z.max 0 (repeat 0 n) = 0.
Proof. induction n as [|n IH]; [reflexivity|]. cbn. rewrite IH. reflexivity. Qed.

Lemma vn_of_gn (gn : list Z) : map (fun p => fst p * (0 + 1) + snd p) (combine gn (repeat 0 (length gn))) = gn.
Proof. induction gn as [|g gn IH]; [reflexivity|]. cbn [length repeat combine map fst snd]. rewrite IH. f_equal. lia. Qed.

Lemma strict_vn_groups Gs : sep Gs -> Forall slice_sorted Gs -> strict_vn (concat Gs) = gnums 0 Gs.
Proof.
  intros S F. unfold strict_vn. rewrite (group_nos_groups Gs S).
  unfold vol_numbers2. rewrite vn2_zero; [|now apply pairs_nodup|reflexivity].
  rewrite fold_max_repeat0, combine_length, gnums_length, map_length, Nat.min_id.
  rewrite <- (gnums_length 0 Gs). apply vn_of_gn.
Qed.

(* ---- is_full flags of the groups *)
Definition completeb (smax : Z) (G : list rec) : bool := set_eqb (map sl G) (zrange 1 smax).
Definition flagsG (smax : Z) (Gs : list (list rec)) : list bool :=
  concat (map (fun G => repeat (completeb smax G) (length G)) Gs).

Lemma vol_slices_app a b av bv v : length a = length av ->
  vol_slices (a ++ b) (av ++ bv) v = vol_slices a av v ++ vol_slices b bv v.
Proof. intros H. unfold vol_slices. now rewrite combine_app, filter_app, map_app. Qed.

Lemma vol_slices_none a av v : ~ In v av -> vol_slices a av v = [].
Proof.
  revert av; induction a as [|x a IH]; intros [|y av] H; try reflexivity. unfold vol_slices in *. cbn.
  destruct (Z.eqb_spec y v) as [->|N]; [exfalso; apply H; now left|]. apply IH. intros Hin. apply H. now right.
Qed.

Lemma vol_slices_all a v : vol_slices a (repeat v (length a)) v = a.
Proof. induction a as [|x a IH]; [reflexivity|]. unfold vol_slices in *. cbn. rewrite Z.eqb_refl. cbn. now rewrite IH. Qed.

Lemma map_repeat' {A B} (f : A -> B) x n : map f (repeat x n) = repeat (f x) n.
Proof. induction n as [|n IH]; [reflexivity|]. cbn. now rewrite IH. Qed.

Lemma flags_blocks smax Gs : forall g (P Pv : list Z), length P = length Pv -> (forall v, In v Pv -> v < g) ->
  map (fun v => set_eqb (vol_slices (P ++ map sl (concat Gs)) (Pv ++ gnums g Gs) v) (zrange 1 smax)) (gnums g Gs)
  = flagsG smax Gs.
Proof.
  induction Gs as [|G Gs IH]; intros g P Pv LP HP; [reflexivity|].
  cbn [gnums concat flagsG map]. fold (flagsG smax Gs). rewrite map_app. f_equal.
  - rewrite map_repeat'. f_equal. unfold completeb. f_equal.
    rewrite map_app, vol_slices_app by assumption.
    rewrite (vol_slices_none P Pv g) by (intros Hin; apply HP in Hin; lia).
    rewrite vol_slices_app by now rewrite repeat_length, map_length.
    rewrite (vol_slices_none _ (gnums (g + 1) Gs) g) by (intros Hin; apply gnums_ge in Hin; lia).
    rewrite <- (map_length sl G), vol_slices_all. cbn. apply app_nil_r.
  - rewrite <- (IH (g + 1) (P ++ map sl G) (Pv ++ repeat g (length G))).
    + apply map_ext. intros v. now rewrite map_app, !app_assoc.
    + now rewrite !app_length, repeat_length, map_length, LP.
    + intros v Hv. apply in_app_or in Hv. destruct Hv as [Hv|Hv]; [apply HP in Hv; lia|apply repeat_spec in Hv; lia].
Qed.

Lemma viw_groups smax Gs : in_range (map sl (concat Gs)) smax ->
  vol_is_full_with (map sl (concat Gs)) (gnums 0 Gs) smax = Some (flagsG smax Gs).
Proof.
  intros IR. destruct (viw_spec (map sl (concat Gs)) (gnums 0 Gs) smax) as [[_ [full [E _]]]|[NR _]]; [|contradiction].
  rewrite E. f_equal. unfold vol_is_full_with in E.
  destruct (negb (forallb (fun s => memz s (zrange 1 smax)) (map sl (concat Gs)))); [discriminate|].
  inversion E as [E']. clear E E'.
  rewrite <- (flags_blocks smax Gs 0 [] []) by (try reflexivity; intros v []).
  cbn [app]. apply map_ext_in. intros v Hv.
  apply (lookup_tab (fun v => set_eqb (vol_slices (map sl (concat Gs)) (gnums 0 Gs) v) (zrange 1 smax))).
  now apply nodup_In.
Qed.

Lemma filter_flags_groups smax Gs :
  map fst (filter snd (combine (concat Gs) (flagsG smax Gs))) = concat (filter (completeb smax) Gs).
Proof.
  induction Gs as [|G Gs IH]; [reflexivity|]. cbn [concat flagsG map filter]. fold (flagsG smax Gs).
  rewrite combine_app by now rewrite repeat_length. rewrite filter_app, map_app, IH.
  destruct (completeb smax G); cbn [concat]; f_equal.
  - clear. induction G as [|x G IHG]; [reflexivity|]. cbn. now rewrite IHG.
  - clear. induction G as [|x G IHG]; [reflexivity|]. cbn. exact IHG.
Qed.

(* ---- the second-stage sort of a list whose volume numbers already ascend: a stable partition *)
Lemma insert_app_skip {A} (le : A -> A -> bool) x (F N : list A) :
  (forall y, In y F -> le x y = false) -> insert le x (F ++ N) = F ++ insert le x N.
Proof.
  induction F as [|y F IH]; intros H; [reflexivity|]. cbn [app insert]. rewrite (H y) by now left.
  f_equal. apply IH. intros z Hz. apply H. now right.
Qed.

Lemma insert_front {A} (le : A -> A -> bool) x (l : list A) :
  (forall y, In y l -> le x y = true) -> insert le x l = x :: l.
Proof. destruct l as [|y l]; intros H; [reflexivity|]. cbn. now rewrite (H y) by now left. Qed.

Lemma k2_le_cases (a b : ann) : fst (snd a) <= fst (snd b) ->
  key_le (k2 a) (k2 b) = (negb (aflag b) || aflag a) && true || (aflag a && negb (aflag b)).
Proof.
  destruct a as [ra [va fa]], b as [rb [vb fb0]]. cbn [fst snd]. intros H.
  unfold k2, key2, key_le, aflag. cbn [fst snd rev app lex_le].
  destruct fa, fb0; cbn [negb b2z andb orb];
    repeat (match goal with |- context [?x <? ?y] => destruct (Z.ltb_spec x y); try lia end); reflexivity.
Qed.

Lemma isort_k2_partition (AL : list ann) :
  StronglySorted Z.le (map (fun a : ann => fst (snd a)) AL) ->
  isort (fun a b => key_le (k2 a) (k2 b)) AL = filter aflag AL ++ filter (fun a => negb (aflag a)) AL.
Proof.
  induction AL as [|x AL IH]; intros S; [reflexivity|].
  cbn [map] in S. inversion S as [|? ? S' F]; subst. rewrite Forall_forall in F.
  cbn [isort fold_right]. fold (isort (fun a b => key_le (k2 a) (k2 b)) AL). rewrite (IH S').
  assert (Hle : forall y, In y AL -> fst (snd x) <= fst (snd y)).
  { intros y Hy. apply F. apply (in_map (fun a : ann => fst (snd a))). exact Hy. }
  cbn [filter]. destruct (aflag x) eqn:Ex; cbn [negb app].
  - apply insert_front. intros y Hy. rewrite k2_le_cases.
    + rewrite Ex. destruct (aflag y); reflexivity.
    + apply Hle. apply in_app_or in Hy. destruct Hy as [Hy|Hy]; apply filter_In in Hy; tauto.
  - rewrite insert_app_skip.
    + f_equal. apply insert_front. intros y Hy. apply filter_In in Hy. destruct Hy as [Hy Ey].
      rewrite k2_le_cases by now apply Hle. rewrite Ex. destruct (aflag y); [discriminate|reflexivity].
    + intros y Hy. apply filter_In in Hy. destruct Hy as [Hy Ey].
      rewrite k2_le_cases by now apply Hle. rewrite Ex, Ey. reflexivity.
Qed.

Lemma map_vn_combine {A} (L : list A) (vn : list Z) (full : list bool) :
  length L = length vn -> length vn = length full ->
  map (fun a : A * (Z * bool) => fst (snd a)) (combine L (combine vn full)) = vn.
Proof.
  revert vn full; induction L as [|x L IH]; intros [|v vn] [|b full] H1 H2; cbn in *; try lia; try reflexivity.
  f_equal. apply IH; lia.
Qed.

Lemma firstn_app_exact' {A} (a r : list A) n : n = length a -> firstn n (a ++ r) = a.
Proof. intros ->. apply firstn_app_exact. Qed.

(* the trim length is the number of records of complete volumes (both orders) *)
Lemma n_used_count (strict : bool) smax recs nv vn full :
  n_vols strict smax recs = Some nv -> (1 <= nv)%nat ->
  vols_of strict smax (base_of strict recs) = Some (vn, full) ->
  n_used strict smax recs = Some (length (filter (fun b : bool => b) full)).
Proof.
  intros NV Hnv E. unfold n_used. rewrite NV. f_equal.
  set (L := base_of strict recs) in *.
  assert (PL : Permutation L recs).
  { unfold L. destruct strict; cbn [base_of]; [apply stage1_perm|reflexivity]. }
  destruct (vols_of_viw strict smax L vn full E) as [EW [Lv [Lf NDp]]].
  rewrite (full_count_w _ vn smax full EW) by (rewrite ?map_length; assumption).
  assert (Ps : Permutation (map sl L) (map sl recs)) by now apply Permutation_map.
  rewrite n_vols_vols_of in NV. fold L in NV. rewrite E in NV. inversion NV as [Q']. rewrite Q'.
  unfold n_slices. rewrite (n_distinct_perm _ _ Ps).
  destruct (Nat.ltb_spec 1 nv); [reflexivity|]. assert (nv = 1%nat) as -> by lia. lia.
Qed.

Definition complete_group (smax : Z) (G : list rec) : Prop := map sl G = zrange 1 smax.

Lemma completeb_spec smax G : slice_sorted G -> (forall r, In r G -> 1 <= sl r <= smax) ->
  completeb smax G = true <-> complete_group smax G.
Proof.
  intros S R. unfold completeb, complete_group, set_eqb. rewrite andb_true_iff, !forallb_forall. split.
  - intros [_ H2]. apply (sort_perm_unique Z.lt); try assumption; try apply zrange_sorted; try (intros; lia).
    apply NoDup_Permutation; [now apply sorted_lt_NoDup|apply zrange_NoDup|].
    intros s. rewrite zrange_In. split.
    + intros Hs. apply in_map_iff in Hs. destruct Hs as [r [<- Hr]]. now apply R.
    + intros Hs. apply memz_In. apply H2. now apply zrange_In.
  - intros E. rewrite E. split; intros s Hs; now apply memz_In.
Qed.

(* C20_strict_label_volumes: the records kept by the strict order are EXACTLY the complete label
   volumes, in key order, slice by slice - whatever is missing, wherever in the key order *)
Lemma strict_label_volumes smax recs idx nv :
  keyed smax recs -> NoDup (map keys recs) ->
  sorted_slice_indices true smax recs = Some idx -> n_vols true smax recs = Some nv -> (1 <= nv)%nat ->
  let Gs := groups (length (stage1 recs)) (stage1 recs) in
  select dummy idx recs = concat (filter (completeb smax) Gs) /\
  stage1 recs = concat Gs /\ sep Gs /\ Forall slice_sorted Gs.
Proof.
  intros K N SI NV Hnv Gs.
  assert (K' : keyed smax (stage1 recs)) by (apply (keyed_perm smax recs); [symmetry; apply stage1_perm|assumption]).
  destruct (groups_spec smax (length (stage1 recs)) (stage1 recs) K' (stage1_sorted recs N) (le_n _)) as [C1 [C2 C3]].
  fold Gs in C1, C2, C3. split; [|split; [now symmetry|split; assumption]].
  clearbody Gs.
  unfold sorted_slice_indices in SI.
  destruct (strict_sort_order smax recs) as [order|] eqn:EO; [|discriminate].
  destruct (order_records true smax recs order EO) as [vn [full [E R]]]. cbn [base_of kf_of vols_of] in E, R.
  rewrite (n_used_count true smax recs nv vn full NV Hnv E) in SI. inversion SI; subst idx. clear SI.
  destruct (strict_vols_lengths _ _ _ _ E) as [Lv Lf].
  (* explicit volume numbers and flags *)
  unfold strict_vols in E. rewrite <- C1 in E, R, Lv, Lf.
  rewrite (strict_vn_groups Gs C2 C3) in E.
  assert (IR : in_range (map sl (concat Gs)) smax).
  { intros s Hs. apply in_map_iff in Hs. destruct Hs as [r [<- Hr]]. apply (k_range _ _ K'). now rewrite <- C1. }
  rewrite (viw_groups smax Gs IR) in E. inversion E; subst vn full. clear E.
  rewrite select_firstn, R, isort_k2_partition.
  - rewrite map_app. rewrite annot_complete by lia.
    rewrite firstn_app_exact'.
    + apply filter_flags_groups.
    + rewrite <- (annot_complete (concat Gs) (gnums 0 Gs) (flagsG smax Gs)) by lia.
      rewrite map_length. unfold annot. symmetry. apply filter3_length; lia.
  - unfold annot. rewrite map_vn_combine by lia. apply gnums_sorted.
Qed.

(* end to end at the level of load, for any record order *)
Lemma strict_load_by_label fone fdiv fmul permit fp expd smax nlab recs recs' idx o :
  Permutation recs recs' -> keyed smax recs -> NoDup (map keys recs) ->
  load fone fdiv fmul true permit fp expd smax nlab recs' = Ok (idx, o) ->
  let Gs := groups (length (stage1 recs)) (stage1 recs) in
  let kept := concat (filter (completeb smax) Gs) in
  stage1 recs = concat Gs /\ sep Gs /\ Forall slice_sorted Gs /\
  select dummy idx recs' = kept /\
  o_payload o = map pid kept /\
  o_slope o = map (slope_of fone fdiv fp) kept /\
  o_inter o = map (inter_of fdiv fmul fp) kept.
Proof.
  intros P K N L Gs kept.
  assert (K' : keyed smax recs') by now apply (keyed_perm smax recs).
  assert (N' : NoDup (map keys recs')) by (eapply Permutation_NoDup; [apply Permutation_map; exact P|exact N]).
  assert (ES : stage1 recs' = stage1 recs) by (symmetry; now apply stage1_perm_invariant).
  destruct (load_ok fone fdiv fmul _ _ _ _ _ _ _ _ _ L) as [_ [SI [nv [NV [Hnv ->]]]]].
  destruct (strict_label_volumes smax recs' idx nv K' N' SI NV Hnv) as [C1 [C2 [C3 C4]]].
  rewrite ES in C1, C2, C3, C4. fold Gs in C1, C2, C3, C4. fold kept in C1.
  repeat (split; [assumption|]). cbn [obs_of o_payload o_slope o_inter]. now rewrite C1.
Qed.

(* S-C20c repaired: a recording without any complete volume is refused *)
Lemma no_volume_refused fone fdiv fmul (strict : bool) permit fp expd smax nlab recs :
  n_vols strict smax recs = Some O ->
  (exists e, load fone fdiv fmul strict permit fp expd smax nlab recs = Err e).
Proof.
  intros NV. unfold load. destruct (header_init permit expd smax recs) as [[]|e]; [|eauto].
  rewrite NV. destruct (sorted_slice_indices strict smax recs); eauto.
Qed.
