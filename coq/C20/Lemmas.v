(* C20/Lemmas.v — proofs about C20/Model.v *)
From Coq Require Import ZArith List Bool Lia ZifyBool Permutation Sorted.
From NV Require Import C20.Model C20.ListPerm.
Import ListNotations.
Open Scope Z_scope.

Notation cnt := (count_occ Z.eq_dec).

(* ------------------------------------------------------------ small set facts *)
Lemma memz_In x l : memz x l = true <-> In x l.
Proof.
  unfold memz. rewrite existsb_exists. split.
  - intros [y [Hy E]]. apply Z.eqb_eq in E. now subst.
  - intros H. exists x. split; [assumption|apply Z.eqb_refl].
Qed.

Lemma zrange_In lo hi x : In x (zrange lo hi) <-> lo <= x <= hi.
Proof.
  unfold zrange. rewrite in_map_iff. split.
  - intros [k [<- Hk]]. apply in_seq in Hk. lia.
  - intros H. exists (Z.to_nat (x - lo)). split; [lia|]. apply in_seq. lia.
Qed.

Lemma n_distinct_ext a b : (forall x, In x a <-> In x b) -> n_distinct a = n_distinct b.
Proof.
  intros H. unfold n_distinct. apply Permutation_length.
  apply NoDup_Permutation; try apply NoDup_nodup.
  intros x. rewrite !nodup_In. apply H.
Qed.

Lemma n_distinct_perm a b : Permutation a b -> n_distinct a = n_distinct b.
Proof.
  intros P. apply n_distinct_ext. intros x. split; apply Permutation_in; [assumption|now symmetry].
Qed.

Lemma forallb_perm {A} (p : A -> bool) a b : Permutation a b -> forallb p a = forallb p b.
Proof.
  intros P. induction P as [|x l l' P IH|x y l|l l' l'' P1 IH1 P2 IH2]; cbn.
  - reflexivity.
  - now rewrite IH.
  - destruct (p x), (p y); reflexivity.
  - congruence.
Qed.

Lemma lookup_tab (f : Z -> bool) vs v d :
  In v vs -> lookup v (map (fun v => (v, f v)) vs) d = f v.
Proof.
  induction vs as [|w vs IH]; intros H; [destruct H|].
  cbn [map lookup]. destruct (Z.eqb_spec w v) as [->|N]; [reflexivity|].
  destruct H as [E|H]; [congruence|now apply IH].
Qed.

(* ------------------------------------------------------------ vol_numbers *)
Lemma vna_length seen l : length (vol_numbers_aux seen l) = length l.
Proof. revert seen; induction l as [|x r IH]; intros seen; cbn; [reflexivity|]. now rewrite IH. Qed.

(* the pairs (slice, volume) present: slice s occupies volumes count(seen) .. count(seen)+count(l)-1 *)
Lemma vna_in seen l s v :
  In (s, v) (combine l (vol_numbers_aux seen l)) <->
  exists k : nat, v = Z.of_nat k /\ (cnt seen s <= k < cnt seen s + cnt l s)%nat.
Proof.
  revert seen; induction l as [|x r IH]; intros seen.
  - cbn. split; [tauto|]. intros [k [_ H]]. lia.
  - cbn [vol_numbers_aux combine In]. rewrite IH. clear IH.
    destruct (Z.eq_dec x s) as [->|N].
    + rewrite !count_occ_cons_eq by reflexivity. split.
      * intros [E|[k [-> H]]].
        -- inversion E; subst. eexists; split; [reflexivity|lia].
        -- exists k; split; [reflexivity|lia].
      * intros [k [-> H]].
        destruct (Nat.eq_dec k (cnt seen s)) as [->|Nk]; [now left|].
        right. exists k; split; [reflexivity|lia].
    + rewrite !count_occ_cons_neq by assumption. split.
      * intros [E|H]; [inversion E; congruence|assumption].
      * intros H. now right.
Qed.

Lemma vna_nodup seen l : NoDup (combine l (vol_numbers_aux seen l)).
Proof.
  revert seen; induction l as [|x r IH]; intros seen; cbn [vol_numbers_aux combine]; constructor.
  - rewrite vna_in. intros [k [E H]]. rewrite count_occ_cons_eq in H by reflexivity. lia.
  - apply IH.
Qed.

Lemma vn_length l : length (vol_numbers l) = length l.
Proof. apply vna_length. Qed.

Lemma vn_in l s v :
  In (s, v) (combine l (vol_numbers l)) <-> exists k : nat, v = Z.of_nat k /\ (k < cnt l s)%nat.
Proof.
  unfold vol_numbers. rewrite vna_in. cbn [count_occ].
  split; intros [k [E H]]; exists k; (split; [assumption|lia]).
Qed.

Lemma vn_nodup l : NoDup (combine l (vol_numbers l)).
Proof. apply vna_nodup. Qed.

Lemma vn_in_perm l l' s v : Permutation l l' ->
  In (s, v) (combine l (vol_numbers l)) <-> In (s, v) (combine l' (vol_numbers l')).
Proof.
  intros P. rewrite !vn_in. pose proof (proj1 (Permutation_count_occ Z.eq_dec l l') P s) as E.
  now rewrite E.
Qed.

Lemma in_combine_split {A B} (a : list A) (b : list B) y :
  length a = length b -> In y b -> exists x, In (x, y) (combine a b).
Proof.
  revert b; induction a as [|x a IH]; intros [|z b] H Hy; cbn in *; try lia; try tauto.
  destruct Hy as [->|Hy]; [exists x; now left|].
  destruct (IH b ltac:(lia) Hy) as [x' Hx]. exists x'. now right.
Qed.

Lemma combine_map_in {A B} (g : A -> B) l v b : In (v, b) (combine l (map g l)) -> b = g v.
Proof.
  induction l as [|x l IH]; cbn; [tauto|]. intros [E|H]; [now inversion E|now apply IH].
Qed.

(* ------------------------------------------------------------ vol_is_full *)
(* v is a complete volume of the slice sequence sn *)
Definition fullv (sn : list Z) (smax v : Z) : Prop :=
  forall s, 1 <= s <= smax -> In (s, v) (combine sn (vol_numbers sn)).
Definition in_range (sn : list Z) (smax : Z) : Prop := forall s, In s sn -> 1 <= s <= smax.

Lemma vol_slices_In sn vn v s : In s (vol_slices sn vn v) <-> In (s, v) (combine sn vn).
Proof.
  unfold vol_slices. rewrite in_map_iff. split.
  - intros [[s' v'] [E H]]. apply filter_In in H. destruct H as [H Ev]. cbn in *.
    apply Z.eqb_eq in Ev. now subst.
  - intros H. exists (s, v). split; [reflexivity|]. apply filter_In. split; [assumption|].
    cbn. apply Z.eqb_refl.
Qed.

Lemma vol_is_full_spec sn smax :
  (in_range sn smax /\ exists full, vol_is_full sn smax = Some full /\ length full = length sn /\
     forall v b, In (v, b) (combine (vol_numbers sn) full) -> (b = true <-> fullv sn smax v))
  \/ (~ in_range sn smax /\ vol_is_full sn smax = None).
Proof.
  unfold vol_is_full.
  destruct (forallb (fun s => memz s (zrange 1 smax)) sn) eqn:R; cbn [negb].
  - left. rewrite forallb_forall in R.
    assert (IR : in_range sn smax).
    { intros s Hs. apply zrange_In. apply memz_In. now apply R. }
    split; [exact IR|]. eexists. split; [reflexivity|]. split; [now rewrite map_length, vn_length|].
    intros v b H.
    set (f := fun v => set_eqb (vol_slices sn (vol_numbers sn) v) (zrange 1 smax)) in *.
    assert (Hv : In v (vol_numbers sn)).
    { apply in_combine_l in H. exact H. }
    assert (Hb : b = f v).
    { apply combine_map_in in H. subst b. apply lookup_tab. now apply nodup_In. }
    subst b. unfold f, set_eqb. rewrite andb_true_iff, !forallb_forall. split.
    + intros [_ H2] s Hs. apply vol_slices_In. apply memz_In. apply H2. now apply zrange_In.
    + intros F. split.
      * intros s Hs. apply memz_In. apply zrange_In. apply IR.
        apply vol_slices_In in Hs. now apply in_combine_l in Hs.
      * intros s Hs. apply memz_In. apply vol_slices_In. apply F. now apply zrange_In.
  - right. split; [|reflexivity]. intros IR.
    assert (forallb (fun s => memz s (zrange 1 smax)) sn = true); [|congruence].
    apply forallb_forall. intros s Hs. apply memz_In, zrange_In. now apply IR.
Qed.

Lemma fullv_perm sn sn' smax v : Permutation sn sn' -> fullv sn smax v <-> fullv sn' smax v.
Proof.
  intros P. unfold fullv. split; intros H s Hs.
  - apply (vn_in_perm sn sn' s v P). now apply H.
  - apply (vn_in_perm sn sn' s v P). now apply H.
Qed.

Lemma in_range_perm sn sn' smax : Permutation sn sn' -> in_range sn smax <-> in_range sn' smax.
Proof.
  intros P. unfold in_range. split; intros H s Hs; apply H; eapply Permutation_in; try exact Hs;
    [now symmetry|assumption].
Qed.

Lemma vol_is_full_none_perm sn sn' smax : Permutation sn sn' ->
  vol_is_full sn smax = None <-> vol_is_full sn' smax = None.
Proof.
  intros P.
  destruct (vol_is_full_spec sn smax) as [[IR [f [E _]]]|[NR E]],
           (vol_is_full_spec sn' smax) as [[IR' [f' [E' _]]]|[NR' E']]; rewrite E, E';
    try (split; congruence).
  - exfalso. apply NR'. now apply (in_range_perm sn sn' smax P).
  - exfalso. apply NR. now apply (in_range_perm sn sn' smax P).
Qed.

(* the set of complete volume numbers *)
Lemma full_vols_In sn smax full v :
  vol_is_full sn smax = Some full ->
  In v (map fst (filter snd (combine (vol_numbers sn) full))) <->
  (In v (vol_numbers sn) /\ fullv sn smax v).
Proof.
  intros E. destruct (vol_is_full_spec sn smax) as [[IR [f [E' [L S]]]]|[_ E']]; [|congruence].
  rewrite E in E'. inversion E'; subst f. clear E'.
  rewrite in_map_iff. split.
  - intros [[v' b] [Ev H]]. cbn in Ev. subst v'. apply filter_In in H. destruct H as [H Hb].
    cbn in Hb. subst b. split; [now apply in_combine_l in H|]. now apply (S v true).
  - intros [Hv F]. destruct (in_combine_split full (vol_numbers sn) v) as [b Hb].
    { now rewrite vn_length. } { assumption. }
    assert (Hb' : In (v, b) (combine (vol_numbers sn) full)).
    { clear -Hb. revert Hb. generalize (vol_numbers sn) as a. intros a. revert a.
      induction full as [|y full IH]; intros [|x a] H; cbn in *; try tauto.
      destruct H as [E|H]; [inversion E; now left|right; now apply IH]. }
    exists (v, b). split; [reflexivity|]. apply filter_In. split; [assumption|]. cbn.
    now apply (S v b).
Qed.

Lemma vn_In_vol sn v : In v (vol_numbers sn) <-> exists s, In (s, v) (combine sn (vol_numbers sn)).
Proof.
  split.
  - intros H. apply in_combine_split; [now rewrite vn_length|assumption].
  - intros [s H]. now apply in_combine_r in H.
Qed.

Lemma vn_In_vol_perm sn sn' v : Permutation sn sn' -> In v (vol_numbers sn) <-> In v (vol_numbers sn').
Proof.
  intros P. rewrite !vn_In_vol. split; intros [s H]; exists s; now apply (vn_in_perm sn sn' s v P).
Qed.

(* ------------------------------------------------------------ more list helpers *)
Lemma in_combine_ex_l {A B} (a : list A) (b : list B) x :
  length a = length b -> In x a -> exists y, In (x, y) (combine a b).
Proof.
  revert b; induction a as [|z a IH]; intros [|w b] H Hx; cbn in *; try lia; try tauto.
  destruct Hx as [->|Hx]; [exists w; now left|].
  destruct (IH b ltac:(lia) Hx) as [y Hy]. exists y. now right.
Qed.

Lemma existsb_ext_in {A} (f g : A -> bool) l : (forall x, In x l -> f x = g x) -> existsb f l = existsb g l.
Proof.
  induction l as [|x l IH]; intros H; [reflexivity|]. cbn. rewrite (H x) by now left.
  rewrite IH; [reflexivity|]. intros y Hy. apply H. now right.
Qed.

Lemma Permutation_filter {A} (p : A -> bool) l l' : Permutation l l' -> Permutation (filter p l) (filter p l').
Proof.
  intros P. induction P as [|x l l' P IH|x y l|l l' l'' P1 IH1 P2 IH2]; cbn.
  - constructor.
  - destruct (p x); [now constructor|assumption].
  - destruct (p x), (p y); try reflexivity. apply perm_swap.
  - now transitivity (filter p l').
Qed.

Lemma firstn_incl {A} n (l : list A) x : In x (firstn n l) -> In x l.
Proof. intros H. rewrite <- (firstn_skipn n l). apply in_or_app. now left. Qed.

Lemma NoDup_app_l {A} (a b : list A) : NoDup (a ++ b) -> NoDup a.
Proof.
  induction a as [|x a IH]; cbn; intros H; [constructor|]. inversion H as [|? ? Hx Hr]; subst.
  constructor; [|now apply IH]. intros Hin. apply Hx. apply in_or_app. now left.
Qed.

Lemma NoDup_app_intro {A} (a b : list A) :
  NoDup a -> NoDup b -> (forall x, In x a -> In x b -> False) -> NoDup (a ++ b).
Proof.
  intros Ha Hb H. induction Ha as [|x a Hx Ha IH]; cbn; [assumption|]. constructor.
  - intros Hin. apply in_app_or in Hin. destruct Hin as [Hin|Hin]; [now apply Hx|].
    apply (H x); [now left|assumption].
  - apply IH. intros y Hy. apply H. now right.
Qed.

Lemma firstn_NoDup {A} n (l : list A) : NoDup l -> NoDup (firstn n l).
Proof. intros H. rewrite <- (firstn_skipn n l) in H. now apply NoDup_app_l in H. Qed.

Lemma select_length {A} (d : A) idx l : length (select d idx l) = length idx.
Proof. apply map_length. Qed.

Lemma select_perm {A} (d : A) idx l :
  Permutation idx (seq 0 (length l)) -> Permutation (select d idx l) l.
Proof.
  intros P. unfold select. rewrite (Permutation_map _ P). fold (select d (seq 0 (length l)) l).
  now rewrite select_seq.
Qed.

Lemma nth_select {A} (d d' : A) idx l k :
  (k < length idx)%nat -> nth k (select d idx l) d' = nth (nth k idx O) l d.
Proof.
  intros H. unfold select. rewrite (nth_indep _ d' (nth O l d)) by now rewrite map_length.
  apply (map_nth (fun i => nth i l d)).
Qed.

Lemma NoDup_list_prod {A B} (a : list A) (b : list B) : NoDup a -> NoDup b -> NoDup (list_prod a b).
Proof.
  intros Ha Hb. induction Ha as [|x a Hx Ha IH]; cbn; [constructor|].
  apply NoDup_app_intro; [| assumption |].
  - apply FinFun.Injective_map_NoDup; [|assumption]. intros u v E. now inversion E.
  - intros [u v] H1 H2. apply in_map_iff in H1. destruct H1 as [w [E _]]. inversion E; subst.
    apply in_prod_iff in H2. now destruct H2.
Qed.

(* ------------------------------------------------------------ invariance under permutation *)
(* number of complete volumes of a slice sequence *)
Definition nvols_seq (sn : list Z) (smax : Z) : option nat :=
  match vol_is_full sn smax with
  | None => None
  | Some full => Some (n_distinct (map fst (filter snd (combine (vol_numbers sn) full))))
  end.

Lemma n_vols_seq smax recs : n_vols smax recs = nvols_seq (map sl recs) smax.
Proof. reflexivity. Qed.

Lemma nvols_seq_perm sn sn' smax : Permutation sn sn' -> nvols_seq sn smax = nvols_seq sn' smax.
Proof.
  intros P. unfold nvols_seq.
  destruct (vol_is_full sn smax) as [full|] eqn:E, (vol_is_full sn' smax) as [full'|] eqn:E'.
  - f_equal. apply n_distinct_ext. intros v.
    rewrite (full_vols_In sn smax full v E), (full_vols_In sn' smax full' v E').
    now rewrite (vn_In_vol_perm sn sn' v P), (fullv_perm sn sn' smax v P).
  - apply (vol_is_full_none_perm sn sn' smax P) in E'. congruence.
  - apply (vol_is_full_none_perm sn sn' smax P) in E. congruence.
  - reflexivity.
Qed.

Lemma all_full_iff sn smax full : vol_is_full sn smax = Some full ->
  forallb (fun b => b) full = true <-> (forall v, In v (vol_numbers sn) -> fullv sn smax v).
Proof.
  intros E. destruct (vol_is_full_spec sn smax) as [[IR [f [E' [L S]]]]|[_ E']]; [|congruence].
  rewrite E in E'. inversion E'; subst f. clear E'. rewrite forallb_forall. split.
  - intros H v Hv. destruct (in_combine_ex_l (vol_numbers sn) full v) as [b Hb];
      [now rewrite vn_length|assumption|].
    apply (S v b Hb). apply H. now apply in_combine_r in Hb.
  - intros H b Hb. destruct (in_combine_split (vol_numbers sn) full b) as [v Hv];
      [now rewrite vn_length|assumption|].
    apply (S v b Hv). apply H. now apply in_combine_l in Hv.
Qed.

Lemma all_full_perm sn sn' smax full full' : Permutation sn sn' ->
  vol_is_full sn smax = Some full -> vol_is_full sn' smax = Some full' ->
  forallb (fun b => b) full = forallb (fun b => b) full'.
Proof.
  intros P E E'.
  pose proof (all_full_iff sn smax full E) as H. pose proof (all_full_iff sn' smax full' E') as H'.
  assert (G : (forall v, In v (vol_numbers sn) -> fullv sn smax v) <->
              (forall v, In v (vol_numbers sn') -> fullv sn' smax v)).
  { split; intros F v Hv.
    - apply (fullv_perm sn sn' smax v P). apply F. now apply (vn_In_vol_perm sn sn' v P).
    - apply (fullv_perm sn sn' smax v P). apply F. now apply (vn_In_vol_perm sn sn' v P). }
  destruct (forallb (fun b => b) full), (forallb (fun b => b) full'); try reflexivity.
  - symmetry. apply H'. apply G. now apply H.
  - apply H. apply G. now apply H'.
Qed.

Lemma column_perm f j recs recs' : Permutation recs recs' -> Permutation (column f j recs) (column f j recs').
Proof. apply Permutation_map. Qed.

Lemma n_slices_perm recs recs' : Permutation recs recs' -> n_slices recs = n_slices recs'.
Proof. intros P. apply n_distinct_perm. now apply Permutation_map. Qed.

Lemma n_vols_perm smax recs recs' : Permutation recs recs' -> n_vols smax recs = n_vols smax recs'.
Proof. intros P. rewrite !n_vols_seq. apply nvols_seq_perm. now apply Permutation_map. Qed.

Lemma n_used_perm smax recs recs' : Permutation recs recs' -> n_used smax recs = n_used smax recs'.
Proof. intros P. unfold n_used. now rewrite (n_vols_perm smax recs recs' P), (n_slices_perm recs recs' P). Qed.

Lemma header_init_perm permit expd smax recs recs' : Permutation recs recs' ->
  header_init permit expd smax recs = header_init permit expd smax recs'.
Proof.
  intros P. unfold header_init.
  assert (chk_trunc expd recs = chk_trunc expd recs') as ->.
  { unfold chk_trunc. apply existsb_ext_in. intros [j e] _. cbn [fst snd].
    now rewrite (n_distinct_perm _ _ (column_perm cks j recs recs' P)). }
  destruct (chk_trunc expd recs' && negb permit); [reflexivity|].
  assert (Ps : Permutation (map sl recs) (map sl recs')) by now apply Permutation_map.
  destruct (vol_is_full (map sl recs) smax) as [full|] eqn:E,
           (vol_is_full (map sl recs') smax) as [full'|] eqn:E'.
  - now rewrite (all_full_perm _ _ smax full full' Ps E E').
  - apply (vol_is_full_none_perm _ _ smax Ps) in E'. congruence.
  - apply (vol_is_full_none_perm _ _ smax Ps) in E. congruence.
  - reflexivity.
Qed.

(* ------------------------------------------------------------ record-level view of the sort orders *)
Definition rec_le (a b : rec) : bool := key_le (keys a) (keys b).
Definition stage1 (recs : list rec) : list rec := isort rec_le recs.

Lemma stage1_perm recs : Permutation (stage1 recs) recs.
Proof. apply isort_perm. Qed.

(* C20 core: with pairwise distinct key tuples the stage-1 order does not depend on the record order *)
Lemma stage1_perm_invariant recs recs' :
  Permutation recs recs' -> NoDup (map keys recs) -> stage1 recs = stage1 recs'.
Proof.
  intros P N. unfold stage1. apply (isort_perm_invariant rec_le keys); unfold rec_le; try assumption.
  - intros x y. apply key_le_total.
  - intros x y z. apply key_le_trans.
  - intros x y. apply key_le_antisym.
  - intros x y E. rewrite E. apply lex_le_refl.
Qed.

Lemma select_stage1 recs : select dummy (lexsort (map keys recs)) recs = stage1 recs.
Proof. apply select_lexsort. Qed.

(* second stage as a function of the stage-1 sorted records only *)
Definition k2rows (vn : list Z) (full : list bool) : list (list Z) :=
  map (fun p => key2 (fst p) (snd p)) (combine vn full).
Definition stage2 (smax : Z) (L : list rec) : option (list rec) :=
  match vol_is_full (map sl L) smax with
  | None => None
  | Some full => Some (select dummy (lexsort (k2rows (vol_numbers (map sl L)) full)) L)
  end.

Lemma full_length sn smax full : vol_is_full sn smax = Some full -> length full = length sn.
Proof.
  intros E. destruct (vol_is_full_spec sn smax) as [[_ [f [E' [L _]]]]|[_ E']]; congruence.
Qed.

Lemma k2rows_length sn smax full : vol_is_full sn smax = Some full ->
  length (k2rows (vol_numbers sn) full) = length sn.
Proof.
  intros E. unfold k2rows. rewrite map_length, combine_length, vn_length, (full_length _ _ _ E).
  apply Nat.min_id.
Qed.

Lemma sn_stage1 recs : select 0 (lexsort (map keys recs)) (map sl recs) = map sl (stage1 recs).
Proof. change 0 with (sl dummy). now rewrite select_map, select_stage1. Qed.

Lemma strict_records smax recs :
  option_map (fun order => select dummy order recs) (strict_sort_order smax recs) = stage2 smax (stage1 recs).
Proof.
  unfold strict_sort_order, stage2. cbv zeta. rewrite !sn_stage1.
  destruct (vol_is_full (map sl (stage1 recs)) smax) as [full|] eqn:E; [|reflexivity].
  cbn [option_map]. f_equal. fold (k2rows (vol_numbers (map sl (stage1 recs))) full).
  rewrite select_select, select_stage1; [reflexivity|].
  intros j Hj. apply lexsort_in_range in Hj.
  rewrite (k2rows_length _ smax full E), map_length, (Permutation_length (stage1_perm recs)) in Hj.
  now rewrite lexsort_length, map_length.
Qed.

Lemma strict_order_perm smax recs order : strict_sort_order smax recs = Some order ->
  Permutation order (seq 0 (length recs)).
Proof.
  unfold strict_sort_order. cbv zeta. rewrite !sn_stage1.
  destruct (vol_is_full (map sl (stage1 recs)) smax) as [full|] eqn:E; [|discriminate].
  intros H. inversion H; subst order. clear H.
  fold (k2rows (vol_numbers (map sl (stage1 recs))) full).
  transitivity (lexsort (map keys recs)).
  - apply select_perm. rewrite lexsort_length.
    rewrite (lexsort_perm _), (k2rows_length _ smax full E), !map_length.
    now rewrite (Permutation_length (stage1_perm recs)).
  - rewrite lexsort_perm. now rewrite map_length.
Qed.

Lemma lax_order_perm smax recs order : lax_sort_order smax recs = Some order ->
  Permutation order (seq 0 (length recs)).
Proof.
  unfold lax_sort_order. destruct (vol_is_full (map sl recs) smax) as [full|] eqn:E; [|discriminate].
  intros H. inversion H; subst order. clear H. rewrite lexsort_perm.
  rewrite map_length, !combine_length, vn_length, (full_length _ _ _ E), map_length, !Nat.min_id.
  reflexivity.
Qed.

Lemma ssi_valid strict smax recs idx : sorted_slice_indices strict smax recs = Some idx ->
  NoDup idx /\ (forall i, In i idx -> (i < length recs)%nat).
Proof.
  unfold sorted_slice_indices.
  destruct (if strict then strict_sort_order smax recs else lax_sort_order smax recs) as [order|] eqn:E;
    [|discriminate].
  destruct (n_used smax recs) as [n|]; [|discriminate]. intros H. inversion H; subst idx. clear H.
  assert (P : Permutation order (seq 0 (length recs))).
  { destruct strict; [now apply strict_order_perm in E|now apply lax_order_perm in E]. }
  split.
  - apply firstn_NoDup. eapply Permutation_NoDup; [symmetry; exact P|apply seq_NoDup].
  - intros i Hi. apply firstn_incl in Hi. apply (Permutation_in _ P) in Hi. apply in_seq in Hi. lia.
Qed.

(* ------------------------------------------------------------ counting the records of complete volumes *)
Lemma filter3_length {A B} (a : list A) (b : list B) (c : list bool) :
  length a = length c -> length b = length c ->
  length (filter (fun t : A * (B * bool) => snd (snd t)) (combine a (combine b c))) = length (filter (fun x => x) c).
Proof.
  revert a b; induction c as [|z c IH]; intros [|x a] [|y b] Ha Hb; cbn in *; try lia; try reflexivity.
  destruct z; cbn; rewrite IH by lia; reflexivity.
Qed.

Lemma map_proj12 {A B C} (a : list A) (b : list B) (c : list C) :
  length b = length c ->
  map (fun t : A * (B * C) => (fst t, fst (snd t))) (combine a (combine b c)) = combine a b.
Proof.
  revert b c; induction a as [|x a IH]; intros [|y b] [|z c] H; cbn in *; try lia; try reflexivity.
  f_equal. apply IH. lia.
Qed.

Lemma NoDup_map_filter {A B} (g : A -> B) (q : A -> bool) l : NoDup (map g l) -> NoDup (map g (filter q l)).
Proof.
  induction l as [|x l IH]; cbn; intros H; [constructor|]. inversion H as [|? ? Hx Hr]; subst.
  destruct (q x); cbn; [|now apply IH]. constructor; [|now apply IH].
  intros Hin. apply Hx. apply in_map_iff in Hin. destruct Hin as [y [E Hy]].
  apply filter_In in Hy. apply in_map_iff. exists y. tauto.
Qed.

Lemma in_combine3 {A B C} (a : list A) (b : list B) (c : list C) x y :
  length b = length c -> In (x, y) (combine a b) -> exists z, In (x, (y, z)) (combine a (combine b c)).
Proof.
  revert b c; induction a as [|u a IH]; intros [|v b] [|w c] H Hin; cbn in *; try lia; try tauto.
  destruct Hin as [E|Hin].
  - inversion E; subst. exists w. now left.
  - destruct (IH b c ltac:(lia) Hin) as [z Hz]. exists z. now right.
Qed.

Lemma full_count sn smax full : vol_is_full sn smax = Some full ->
  length (filter (fun b => b) full) =
  (n_distinct sn * n_distinct (map fst (filter snd (combine (vol_numbers sn) full))))%nat.
Proof.
  intros E. destruct (vol_is_full_spec sn smax) as [[IR [f [E' [L S]]]]|[_ E']]; [|congruence].
  rewrite E in E'. inversion E'; subst f. clear E'.
  pose proof (fun v => full_vols_In sn smax full v E) as FVI.
  set (vn := vol_numbers sn) in *.
  assert (Lv : length vn = length sn) by apply vn_length.
  set (T := combine sn (combine vn full)).
  set (q := fun t : Z * (Z * bool) => snd (snd t)).
  set (g := fun t : Z * (Z * bool) => (fst t, fst (snd t))).
  rewrite <- (filter3_length sn vn full) by lia. fold T. fold q.
  rewrite <- (map_length g (filter q T)).
  unfold n_distinct. rewrite <- prod_length. apply Permutation_length.
  assert (gT : map g T = combine sn vn) by (apply map_proj12; lia).
  apply NoDup_Permutation.
  - apply NoDup_map_filter. rewrite gT. apply vn_nodup.
  - apply NoDup_list_prod; apply NoDup_nodup.
  - intros [s v]. rewrite in_prod_iff, !nodup_In, FVI. split.
    + intros H. apply in_map_iff in H. destruct H as [[s' [v' b]] [Eg Ht]]. unfold g in Eg. cbn in Eg.
      inversion Eg; subst s' v'. apply filter_In in Ht. destruct Ht as [Ht Hb]. unfold q in Hb. cbn in Hb. subst b.
      assert (Hsv : In (s, v) (combine sn vn)).
      { rewrite <- gT. apply in_map_iff. exists (s, (v, true)). split; [reflexivity|exact Ht]. }
      split; [now apply in_combine_l in Hsv|]. split; [now apply in_combine_r in Hsv|].
      apply (S v true); [|reflexivity]. unfold T in Ht. now apply in_combine_r in Ht.
    + intros [Hs [Hv F]]. assert (Hsv : In (s, v) (combine sn vn)) by (apply F; now apply IR).
      destruct (in_combine3 sn vn full s v ltac:(lia) Hsv) as [b Hb]. fold T in Hb.
      assert (b = true) as ->.
      { apply (S v b); [|assumption]. unfold T in Hb. now apply in_combine_r in Hb. }
      apply in_map_iff. exists (s, (v, true)). split; [reflexivity|]. apply filter_In. now split.
Qed.

(* ------------------------------------------------------------ sorted with the complete volumes first *)
Notation ann := (rec * (Z * bool))%type.
Definition annot (L : list rec) (full : list bool) : list ann :=
  combine L (combine (vol_numbers (map sl L)) full).
Definition aflag (a : ann) : bool := snd (snd a).
Definition k2 (a : ann) : list Z := key2 (fst (snd a)) (snd (snd a)).
Definition k3 (a : ann) : list Z := [sl (fst a); fst (snd a); b2z (negb (snd (snd a)))].
Definition dann : ann := (dummy, (0, true)).

Lemma flag_first (kf : ann -> list Z) (AL : list ann) :
  (forall x y, aflag x = false -> aflag y = true -> key_le (kf x) (kf y) = false) ->
  let SAL := isort (fun a b => key_le (kf a) (kf b)) AL in
  firstn (length (filter aflag AL)) SAL = filter aflag SAL /\ Permutation (filter aflag SAL) (filter aflag AL).
Proof.
  intros H SAL.
  assert (P : Permutation SAL AL) by apply isort_perm.
  assert (Pf : Permutation (filter aflag SAL) (filter aflag AL)) by now apply Permutation_filter.
  split; [|exact Pf].
  rewrite <- (Permutation_length Pf).
  rewrite (sorted_partition (fun a b => key_le (kf a) (kf b) = true) aflag SAL) at 2.
  - apply firstn_app_exact.
  - apply isort_sorted; intros; [apply key_le_total|eapply key_le_trans; eassumption].
  - intros x y Hx Hy C. rewrite (H x y Hx Hy) in C. discriminate.
Qed.

Lemma k2_flag x y : aflag x = false -> aflag y = true -> key_le (k2 x) (k2 y) = false.
Proof.
  destruct x as [rx [vx fx]], y as [ry [vy fy]]. unfold aflag, k2, key2, key_le. cbn.
  intros -> ->. reflexivity.
Qed.

Lemma k3_flag x y : aflag x = false -> aflag y = true -> key_le (k3 x) (k3 y) = false.
Proof.
  destruct x as [rx [vx fx]], y as [ry [vy fy]]. unfold aflag, k3, key_le. cbn.
  intros -> ->. reflexivity.
Qed.

Lemma annot_fst L smax full : vol_is_full (map sl L) smax = Some full -> map fst (annot L full) = L.
Proof.
  intros E. unfold annot. apply map_fst_combine.
  rewrite combine_length, vn_length, (full_length _ _ _ E), map_length. now rewrite Nat.min_id.
Qed.

Lemma annot_len L smax full : vol_is_full (map sl L) smax = Some full ->
  length L = length (combine (vol_numbers (map sl L)) full).
Proof.
  intros E. rewrite combine_length, vn_length, (full_length _ _ _ E), map_length. now rewrite Nat.min_id.
Qed.

Lemma annot_k2 L smax full : vol_is_full (map sl L) smax = Some full ->
  map k2 (annot L full) = k2rows (vol_numbers (map sl L)) full.
Proof.
  intros E. unfold annot, k2rows.
  transitivity (map (fun p : Z * bool => key2 (fst p) (snd p))
                    (map snd (combine L (combine (vol_numbers (map sl L)) full)))).
  - rewrite map_map. reflexivity.
  - rewrite map_snd_combine by now apply (annot_len L smax full). reflexivity.
Qed.

Lemma combine_map_l {A B C} (f : A -> B) (a : list A) (c : list C) :
  combine (map f a) c = map (fun p => (f (fst p), snd p)) (combine a c).
Proof.
  revert c; induction a as [|x a IH]; intros [|z c]; cbn; try reflexivity. now rewrite IH.
Qed.

Lemma annot_k3 L full :
  map k3 (annot L full) =
  map (fun p : Z * (Z * bool) => [fst p; fst (snd p); b2z (negb (snd (snd p)))])
      (combine (map sl L) (combine (vol_numbers (map sl L)) full)).
Proof. unfold annot. rewrite combine_map_l, map_map. reflexivity. Qed.

Lemma annot_complete L full :
  length (vol_numbers (map sl L)) = length full ->
  map fst (filter aflag (annot L full)) = map fst (filter snd (combine L full)).
Proof.
  unfold annot. generalize (vol_numbers (map sl L)) as vn. intros vn. revert vn full.
  induction L as [|r L IH]; intros [|v vn] [|b full] H; cbn in *; try lia; try reflexivity.
  unfold aflag at 1. cbn. destruct b; cbn; rewrite IH by lia; reflexivity.
Qed.

(* the records selected by a fancy index computed on the annotated list *)
Lemma select_annot L smax full (kf : ann -> list Z) :
  vol_is_full (map sl L) smax = Some full ->
  select dummy (lexsort (map kf (annot L full))) L =
  map fst (isort (fun a b => key_le (kf a) (kf b)) (annot L full)).
Proof.
  intros E. rewrite <- (select_lexsort dann kf).
  rewrite <- (annot_fst L smax full E) at 2.
  change dummy with (fst dann). apply select_map.
Qed.

Lemma vol_is_full_meaning : forall sn smax full,
  vol_is_full sn smax = Some full ->
  (forall s, In s sn -> 1 <= s <= smax) /\ length full = length sn /\
  (forall v b, In (v, b) (combine (vol_numbers sn) full) ->
     (b = true <-> forall s, 1 <= s <= smax -> In (s, v) (combine sn (vol_numbers sn)))) /\
  (forall s v, In (s, v) (combine sn (vol_numbers sn)) <->
     exists k : nat, v = Z.of_nat k /\ (k < count_occ Z.eq_dec sn s)%nat).
Proof.
  intros sn smax full E.
  destruct (vol_is_full_spec sn smax) as [[IR [f [E' [L S]]]]|[_ E']]; [|congruence].
  rewrite E in E'. inversion E'; subst f.
  split; [exact IR|]. split; [exact L|]. split; [exact S|]. intros s v. apply vn_in.
Qed.

(* ------------------------------------------------------------ the sorted records of both orders *)
(* the records named by the (untrimmed) sort order, as a sort of the annotated base list *)
Definition base_of (strict : bool) (recs : list rec) : list rec := if strict then stage1 recs else recs.
Definition kf_of (strict : bool) : ann -> list Z := if strict then k2 else k3.

Lemma order_records (strict : bool) smax recs order :
  (if strict then strict_sort_order smax recs else lax_sort_order smax recs) = Some order ->
  exists full, vol_is_full (map sl (base_of strict recs)) smax = Some full /\
    select dummy order recs =
    map fst (isort (fun a b => key_le (kf_of strict a) (kf_of strict b)) (annot (base_of strict recs) full)).
Proof.
  destruct strict; cbn [base_of kf_of].
  - intros H. pose proof (strict_records smax recs) as R. rewrite H in R. cbn [option_map] in R.
    unfold stage2 in R. destruct (vol_is_full (map sl (stage1 recs)) smax) as [full|] eqn:E; [|discriminate].
    exists full. split; [reflexivity|]. inversion R as [R']. rewrite R'.
    rewrite <- (annot_k2 _ smax full E). now apply (select_annot _ smax).
  - unfold lax_sort_order. destruct (vol_is_full (map sl recs) smax) as [full|] eqn:E; [|discriminate].
    intros H. inversion H; subst order. exists full. split; [reflexivity|].
    rewrite <- annot_k3. now apply (select_annot _ smax).
Qed.

Lemma kf_flag (strict : bool) x y : aflag x = false -> aflag y = true -> key_le (kf_of strict x) (kf_of strict y) = false.
Proof. destruct strict; [apply k2_flag|apply k3_flag]. Qed.

(* C20_truncated_complete_only *)
Lemma truncated_complete_only (strict : bool) smax recs idx nv :
  sorted_slice_indices strict smax recs = Some idx ->
  n_vols smax recs = Some nv -> (1 <= nv)%nat ->
  exists full, vol_is_full (map sl (base_of strict recs)) smax = Some full /\
    Permutation (select dummy idx recs) (map fst (filter snd (combine (base_of strict recs) full))) /\
    NoDup idx /\ (forall i, In i idx -> (i < length recs)%nat).
Proof.
  intros H NV Hnv. pose proof (ssi_valid strict smax recs idx H) as [ND IRg].
  unfold sorted_slice_indices in H.
  destruct (if strict then strict_sort_order smax recs else lax_sort_order smax recs) as [order|] eqn:EO;
    [|discriminate].
  unfold n_used in H. rewrite NV in H. inversion H; subst idx. clear H.
  destruct (order_records strict smax recs order EO) as [full [E R]].
  exists full. split; [exact E|]. split; [|split; assumption].
  set (L := base_of strict recs) in *.
  assert (PL : Permutation L recs).
  { unfold L. destruct strict; cbn [base_of]; [apply stage1_perm|reflexivity]. }
  rewrite select_firstn, R, firstn_map.
  set (AL := annot L full) in *.
  pose proof (flag_first (kf_of strict) AL (kf_flag strict)) as [F1 F2]. cbv zeta in F1, F2.
  (* the trim length is the number of records of complete volumes *)
  assert (Hn : (if (1 <? nv)%nat then n_slices recs * nv else n_slices recs)%nat = length (filter aflag AL)).
  { assert (Hc : length (filter aflag AL) = length (filter (fun b : bool => b) full)).
    { apply (filter3_length L (vol_numbers (map sl L)) full);
        rewrite ?vn_length, (full_length _ _ _ E), map_length; reflexivity. }
    rewrite Hc.
    rewrite (full_count _ smax full E).
    assert (Ps : Permutation (map sl L) (map sl recs)) by now apply Permutation_map.
    pose proof (nvols_seq_perm _ _ smax Ps) as Q. unfold nvols_seq at 1 in Q. rewrite E in Q.
    rewrite <- n_vols_seq, NV in Q. inversion Q as [Q']. rewrite Q'.
    unfold n_slices. rewrite (n_distinct_perm _ _ Ps).
    destruct (Nat.ltb_spec 1 nv); [reflexivity|]. assert (nv = 1%nat) as -> by lia. lia. }
  rewrite Hn, F1. rewrite F2. unfold AL.
  rewrite annot_complete; [reflexivity|]. now rewrite vn_length, (full_length _ _ _ E), map_length.
Qed.

(* ------------------------------------------------------------ observables in terms of the sorted records *)
Section Obs.
  Variable fone : Z.
  Variables fdiv fmul : Z -> Z -> Z.
  Notation slope_of := (slope_of fone fdiv).
  Notation inter_of := (inter_of fdiv fmul).
  Notation load := (load fone fdiv fmul).

  Definition labels_of (nlab : nat) (dist : nat -> nat) (R : list rec) : list (option (list Z)) :=
    map (fun j => if Nat.ltb 1 (dist j) then Some (column labs j (filter (fun r => sl r =? 1) R)) else None)
        (seq 0 nlab).
  Definition obs_of (fp : bool) (nlab nsl nv : nat) (dist : nat -> nat) (R : list rec) : obs :=
    mkObs nsl nv (map pid R) (map (slope_of fp) R) (map (inter_of fp) R) (labels_of nlab dist R).
  Definition res_obs (r : res (list nat * obs)) : res obs :=
    match r with Ok p => Ok (snd p) | Err e => Err e end.

  Lemma load_ok strict permit fp expd smax nlab recs idx o :
    load strict permit fp expd smax nlab recs = Ok (idx, o) ->
    header_init permit expd smax recs = Ok tt /\
    sorted_slice_indices strict smax recs = Some idx /\
    exists nv, n_vols smax recs = Some nv /\
      o = obs_of fp nlab (n_slices recs) nv (fun j => n_distinct (column labs j recs)) (select dummy idx recs).
  Proof.
    unfold Model.load. destruct (header_init permit expd smax recs) as [[]|e] eqn:HI; [|discriminate].
    destruct (sorted_slice_indices strict smax recs) as [idx'|] eqn:SI; [|discriminate].
    destruct (n_vols smax recs) as [nv|] eqn:NV; [|discriminate].
    intros H. inversion H; subst idx' o. clear H.
    split; [reflexivity|]. split; [reflexivity|]. exists nv. split; [reflexivity|].
    pose proof (ssi_valid strict smax recs idx SI) as [_ IRg].
    unfold obs_of, data_scaling, unscaled, volume_labels, labels_of. cbn [fst snd].
    rewrite (select_map_indep pid dummy (-1) idx recs IRg).
    rewrite (select_map_indep (slope_of fp) dummy 0 idx recs IRg).
    rewrite (select_map_indep (inter_of fp) dummy 0 idx recs IRg). reflexivity.
  Qed.

  (* C20_own_factors *)
  Lemma own_factors strict permit fp expd smax nlab recs idx o :
    load strict permit fp expd smax nlab recs = Ok (idx, o) ->
    NoDup idx /\ length (o_payload o) = length idx /\ length (o_slope o) = length idx /\
    length (o_inter o) = length idx /\
    forall k, (k < length idx)%nat ->
      exists r, nth_error recs (nth k idx O) = Some r /\
        nth k (o_payload o) (-1) = pid r /\
        nth k (o_slope o) 0 = slope_of fp r /\ nth k (o_inter o) 0 = inter_of fp r.
  Proof.
    intros H. destruct (load_ok _ _ _ _ _ _ _ _ _ H) as [_ [SI [nv [_ ->]]]].
    pose proof (ssi_valid strict smax recs idx SI) as [ND IRg].
    cbn [obs_of o_payload o_slope o_inter]. rewrite !map_length, select_length.
    repeat (split; [assumption || reflexivity|]).
    intros k Hk. set (i := nth k idx O).
    assert (Hi : (i < length recs)%nat) by (apply IRg; now apply nth_In).
    destruct (nth_error recs i) as [r|] eqn:Er; [|apply nth_error_None in Er; lia].
    exists r. split; [reflexivity|].
    assert (Hr : nth k (select dummy idx recs) dummy = r).
    { rewrite nth_select by assumption. fold i. now apply nth_error_nth. }
    repeat split.
    - rewrite (nth_indep _ (-1) (pid dummy)) by now rewrite map_length, select_length.
      now rewrite map_nth, Hr.
    - rewrite (nth_indep _ 0 (slope_of fp dummy)) by now rewrite map_length, select_length.
      now rewrite map_nth, Hr.
    - rewrite (nth_indep _ 0 (inter_of fp dummy)) by now rewrite map_length, select_length.
      now rewrite map_nth, Hr.
  Qed.

  (* the strict-sorted records do not depend on the record order *)
  Lemma strict_records_perm smax recs recs' :
    Permutation recs recs' -> NoDup (map keys recs) ->
    option_map (fun idx => select dummy idx recs) (sorted_slice_indices true smax recs) =
    option_map (fun idx => select dummy idx recs') (sorted_slice_indices true smax recs').
  Proof.
    intros P N. unfold sorted_slice_indices.
    rewrite <- (n_used_perm smax recs recs' P).
    pose proof (strict_records smax recs) as R. pose proof (strict_records smax recs') as R'.
    rewrite <- (stage1_perm_invariant recs recs' P N) in R'.
    destruct (strict_sort_order smax recs) as [o|], (strict_sort_order smax recs') as [o'|];
      cbn [option_map] in R, R'; try congruence.
    - destruct (n_used smax recs) as [n|]; [|reflexivity]. cbn [option_map].
      rewrite !select_firstn. rewrite <- R' in R. inversion R as [R1]. now rewrite R1.
    - now destruct (n_used smax recs).
  Qed.

  (* ---- lax order: unchanged when every record keeps its volume number *)
  Definition fb (smax : Z) (sn : list Z) (v : Z) : bool :=
    set_eqb (vol_slices sn (vol_numbers sn) v) (zrange 1 smax).

  Lemma full_as_map sn smax full : vol_is_full sn smax = Some full -> full = map (fb smax sn) (vol_numbers sn).
  Proof.
    unfold vol_is_full. destruct (negb (forallb (fun s => memz s (zrange 1 smax)) sn)); [discriminate|].
    intros H. inversion H. apply map_ext_in. intros v Hv.
    apply (lookup_tab (fb smax sn)). now apply nodup_In.
  Qed.

  Lemma fb_fullv sn smax full v : vol_is_full sn smax = Some full -> In v (vol_numbers sn) ->
    fb smax sn v = true <-> fullv sn smax v.
  Proof.
    intros E Hv. destruct (vol_is_full_spec sn smax) as [[IR [f [E' [L S]]]]|[_ E']]; [|congruence].
    rewrite E in E'. inversion E'; subst f. clear E'.
    apply (S v (fb smax sn v)). rewrite (full_as_map sn smax full E) at 1.
    clear -Hv. induction (vol_numbers sn) as [|w l IH]; [destruct Hv|].
    cbn [map combine In]. destruct Hv as [->|Hv]; [now left|right; now apply IH].
  Qed.

  Lemma combine_map_diag {A B C} (g : B -> C) (a : list A) (b : list B) :
    combine a (combine b (map g b)) = map (fun p => (fst p, (snd p, g (snd p)))) (combine a b).
  Proof.
    revert b; induction a as [|x a IH]; intros [|y b]; cbn; try reflexivity. now rewrite IH.
  Qed.

  Lemma NoDup_map_proj {A B C} (g : A -> B) (h : A -> C) l :
    (forall a b, g a = g b -> h a = h b) -> NoDup (map h l) -> NoDup (map g l).
  Proof.
    intros H. induction l as [|x l IH]; cbn; intros N; [constructor|]. inversion N as [|? ? Hx Nr]; subst.
    constructor; [|now apply IH]. intros Hin. apply Hx. apply in_map_iff in Hin.
    destruct Hin as [y [E Hy]]. apply in_map_iff. exists y. split; [now apply H|assumption].
  Qed.

  Lemma lax_records_perm smax recs recs' :
    Permutation (combine recs (vol_numbers (map sl recs))) (combine recs' (vol_numbers (map sl recs'))) ->
    option_map (fun idx => select dummy idx recs) (sorted_slice_indices false smax recs) =
    option_map (fun idx => select dummy idx recs') (sorted_slice_indices false smax recs').
  Proof.
    intros HP.
    assert (P : Permutation recs recs').
    { apply (Permutation_map fst) in HP. now rewrite !map_fst_combine in HP by now rewrite vn_length, map_length. }
    assert (Ps : Permutation (map sl recs) (map sl recs')) by now apply Permutation_map.
    unfold sorted_slice_indices. rewrite <- (n_used_perm smax recs recs' P).
    destruct (lax_sort_order smax recs) as [o|] eqn:EO, (lax_sort_order smax recs') as [o'|] eqn:EO'.
    - destruct (n_used smax recs) as [n|]; [|reflexivity]. cbn [option_map]. rewrite !select_firstn.
      destruct (order_records false smax recs o EO) as [full [E R]].
      destruct (order_records false smax recs' o' EO') as [full' [E' R']].
      cbn [base_of kf_of] in *. rewrite R, R'. do 3 f_equal.
      apply (isort_perm_invariant _ k3).
      + intros; apply key_le_total.
      + intros x y z; apply key_le_trans.
      + intros x y; apply key_le_antisym.
      + intros x y Ek. rewrite Ek. apply lex_le_refl.
      + unfold annot. rewrite (full_as_map _ smax full E), (full_as_map _ smax full' E'), !combine_map_diag.
        rewrite (Permutation_map _ HP). apply Permutation_refl'. apply map_ext_in.
        intros [r v] Hin. cbn [fst snd]. do 2 f_equal.
        assert (Hv' : In v (vol_numbers (map sl recs'))) by now apply in_combine_r in Hin.
        assert (Hv : In v (vol_numbers (map sl recs))) by now apply (vn_In_vol_perm _ _ v Ps).
        pose proof (fb_fullv _ smax full v E Hv) as F. pose proof (fb_fullv _ smax full' v E' Hv') as F'.
        pose proof (fullv_perm _ _ smax v Ps) as G.
        destruct (fb smax (map sl recs) v), (fb smax (map sl recs') v); try reflexivity.
        * symmetry. apply F'. apply G. now apply F.
        * apply F. apply G. now apply F'.
      + apply (NoDup_map_proj k3 (fun a : ann => (sl (fst a), fst (snd a)))).
        * intros [ra [va fa]] [rb [vb fb0]] Ek. unfold k3 in Ek. cbn in *. now inversion Ek.
        * unfold annot.
          replace (map (fun a : ann => (sl (fst a), fst (snd a)))
                       (combine recs (combine (vol_numbers (map sl recs)) full)))
            with (combine (map sl recs) (vol_numbers (map sl recs))); [apply vn_nodup|].
          rewrite <- (map_proj12 (map sl recs) (vol_numbers (map sl recs)) full)
            by now rewrite vn_length, (full_length _ _ _ E).
          rewrite combine_map_l, map_map. reflexivity.
    - exfalso. unfold lax_sort_order in EO, EO'.
      destruct (vol_is_full (map sl recs') smax) eqn:E'; [discriminate|].
      apply (vol_is_full_none_perm _ _ smax Ps) in E'. rewrite E' in EO. discriminate.
    - exfalso. unfold lax_sort_order in EO, EO'.
      destruct (vol_is_full (map sl recs) smax) eqn:E; [discriminate|].
      apply (vol_is_full_none_perm _ _ smax Ps) in E. rewrite E in EO'. discriminate.
    - now destruct (n_used smax recs).
  Qed.

  (* equal sorted records + permuted records => equal observables *)
  Lemma obs_independent_gen (strict : bool) permit fp expd smax nlab recs recs' :
    Permutation recs recs' ->
    option_map (fun idx => select dummy idx recs) (sorted_slice_indices strict smax recs) =
    option_map (fun idx => select dummy idx recs') (sorted_slice_indices strict smax recs') ->
    res_obs (load strict permit fp expd smax nlab recs) = res_obs (load strict permit fp expd smax nlab recs').
  Proof.
    intros P SR.
    destruct (load strict permit fp expd smax nlab recs) as [[idx o]|e] eqn:L1,
             (load strict permit fp expd smax nlab recs') as [[idx' o']|e'] eqn:L2; cbn [res_obs snd].
    - destruct (load_ok _ _ _ _ _ _ _ _ _ L1) as [_ [SI [nv [NV ->]]]].
      destruct (load_ok _ _ _ _ _ _ _ _ _ L2) as [_ [SI' [nv' [NV' ->]]]].
      rewrite SI, SI' in SR.
      cbn [option_map] in SR. inversion SR as [SR1]. rewrite SR1.
      rewrite (n_vols_perm smax recs recs' P), NV' in NV. inversion NV; subst nv'.
      rewrite (n_slices_perm recs recs' P). f_equal. unfold obs_of. f_equal.
      unfold labels_of. apply map_ext. intros j.
      now rewrite (n_distinct_perm _ _ (column_perm labs j recs recs' P)).
    - exfalso. destruct (load_ok _ _ _ _ _ _ _ _ _ L1) as [HI [SI [nv [NV _]]]].
      unfold Model.load in L2. rewrite <- (header_init_perm permit expd smax recs recs' P), HI in L2.
      rewrite SI in SR.
      destruct (sorted_slice_indices strict smax recs') as [i'|]; [|discriminate].
      rewrite <- (n_vols_perm smax recs recs' P), NV in L2. discriminate.
    - exfalso. destruct (load_ok _ _ _ _ _ _ _ _ _ L2) as [HI [SI [nv [NV _]]]].
      unfold Model.load in L1. rewrite (header_init_perm permit expd smax recs recs' P), HI in L1.
      rewrite SI in SR.
      destruct (sorted_slice_indices strict smax recs) as [i'|]; [|discriminate].
      rewrite (n_vols_perm smax recs recs' P), NV in L1. discriminate.
    - unfold Model.load in L1, L2. rewrite (header_init_perm permit expd smax recs recs' P) in L1.
      destruct (header_init permit expd smax recs') as [[]|e0]; [|congruence].
      rewrite (n_vols_perm smax recs recs' P) in L1.
      destruct (sorted_slice_indices strict smax recs), (n_vols smax recs'),
        (sorted_slice_indices strict smax recs'); congruence.
  Qed.

  (* C20_order_independent *)
  Lemma order_independent permit fp expd smax nlab recs recs' :
    Permutation recs recs' -> NoDup (map keys recs) ->
    res_obs (load true permit fp expd smax nlab recs) = res_obs (load true permit fp expd smax nlab recs').
  Proof.
    intros P N. apply obs_independent_gen; [assumption|]. now apply strict_records_perm.
  Qed.

  (* C20_lax_order_preserving *)
  Lemma lax_order_preserving permit fp expd smax nlab recs recs' :
    Permutation (combine recs (vol_numbers (map sl recs))) (combine recs' (vol_numbers (map sl recs'))) ->
    res_obs (load false permit fp expd smax nlab recs) = res_obs (load false permit fp expd smax nlab recs').
  Proof.
    intros HP. apply obs_independent_gen; [|now apply lax_records_perm].
    apply (Permutation_map fst) in HP. now rewrite !map_fst_combine in HP by now rewrite vn_length, map_length.
  Qed.
End Obs.

(* ------------------------------------------------------------ strict order, label level *)
(* When the stage-1 (key) order consists of complete volumes followed by at most one
   incomplete volume, the output is exactly the complete volumes, in key order, each with
   its slices 1..slice_max in order. *)
Lemma vna_app seen a b :
  vol_numbers_aux seen (a ++ b) = vol_numbers_aux seen a ++ vol_numbers_aux (rev a ++ seen) b.
Proof.
  revert seen; induction a as [|x a IH]; intros seen; [reflexivity|].
  cbn [app vol_numbers_aux rev]. rewrite IH. now rewrite <- app_assoc.
Qed.

Lemma vna_block seen a k : NoDup a -> (forall s, In s a -> cnt seen s = k) ->
  vol_numbers_aux seen a = repeat (Z.of_nat k) (length a).
Proof.
  revert seen; induction a as [|x a IH]; intros seen N H; [reflexivity|].
  inversion N as [|? ? Hx Na]; subst. cbn [vol_numbers_aux length repeat].
  rewrite (H x) by now left. f_equal. apply IH; [assumption|].
  intros s Hs. rewrite count_occ_cons_neq by (intros ->; contradiction). apply H. now right.
Qed.

Lemma zrange_NoDup lo hi : NoDup (zrange lo hi).
Proof.
  unfold zrange. apply FinFun.Injective_map_NoDup; [|apply seq_NoDup]. intros a b E. lia.
Qed.

Lemma cnt_zrange lo hi s : cnt (zrange lo hi) s = if (lo <=? s) && (s <=? hi) then 1%nat else 0%nat.
Proof.
  destruct ((lo <=? s) && (s <=? hi)) eqn:E.
  - apply NoDup_count_occ'; [apply zrange_NoDup|]. apply zrange_In. lia.
  - apply count_occ_not_In. rewrite zrange_In. lia.
Qed.

Fixpoint blocks (k m n : nat) : list Z :=
  match m with O => [] | S m' => repeat (Z.of_nat k) n ++ blocks (S k) m' n end.

Definition complete_group (smax : Z) (G : list rec) : Prop := map sl G = zrange 1 smax.

Lemma cnt_groups smax Gs s : Forall (complete_group smax) Gs -> 1 <= s <= smax ->
  cnt (map sl (concat Gs)) s = length Gs.
Proof.
  intros F Hs. induction F as [|G Gs HG F IH]; [reflexivity|].
  cbn [concat length]. rewrite map_app, count_occ_app, IH, HG, cnt_zrange.
  destruct ((1 <=? s) && (s <=? smax)) eqn:E; lia.
Qed.

Lemma vna_groups smax Gs : forall seen k tl_,
  (forall s, 1 <= s <= smax -> cnt seen s = k) -> Forall (complete_group smax) Gs ->
  NoDup tl_ -> (forall s, In s tl_ -> 1 <= s <= smax) ->
  vol_numbers_aux seen (map sl (concat Gs) ++ tl_) =
  blocks k (length Gs) (length (zrange 1 smax)) ++ repeat (Z.of_nat (k + length Gs)) (length tl_).
Proof.
  induction Gs as [|G Gs IH]; intros seen k tl_ Hk F N R.
  - cbn [concat map app length blocks]. rewrite Nat.add_0_r. apply vna_block; [assumption|].
    intros s Hs. apply Hk. now apply R.
  - inversion F as [|? ? HG F']; subst. cbn [concat length blocks]. rewrite map_app, <- app_assoc, vna_app, HG.
    rewrite (vna_block seen (zrange 1 smax) k) by (try apply zrange_NoDup; intros s Hs; apply Hk; now apply zrange_In).
    rewrite <- app_assoc. f_equal.
    rewrite (IH (rev (zrange 1 smax) ++ seen) (S k) tl_); try assumption.
    + now rewrite Nat.add_succ_comm.
    + intros s Hs. rewrite count_occ_app, count_occ_rev, cnt_zrange, (Hk s Hs).
      destruct ((1 <=? s) && (s <=? smax)) eqn:E; lia.
Qed.

Lemma blocks_In k m n v : In v (blocks k m n) -> exists i, v = Z.of_nat i /\ (k <= i < k + m)%nat.
Proof.
  revert k; induction m as [|m IH]; intros k H; [destruct H|].
  cbn [blocks] in H. apply in_app_or in H. destruct H as [H|H].
  - apply repeat_spec in H. exists k. split; [assumption|lia].
  - destruct (IH _ H) as [i [E Hi]]. exists i. split; [assumption|lia].
Qed.

Lemma blocks_length k m n : length (blocks k m n) = (m * n)%nat.
Proof. revert k; induction m as [|m IH]; intros k; [reflexivity|]. cbn. rewrite app_length, repeat_length, IH. lia. Qed.

Lemma sorted_app_le (a b : list Z) (k : Z) :
  StronglySorted Z.le a -> StronglySorted Z.le b -> (forall x, In x a -> x <= k) -> (forall y, In y b -> k <= y) ->
  StronglySorted Z.le (a ++ b).
Proof.
  intros Sa Sb Ha Hb. induction Sa as [|x a Sa IH Fx]; [assumption|]. cbn. constructor.
  - apply IH. intros y Hy. apply Ha. now right.
  - rewrite Forall_forall in *. intros y Hy. apply in_app_or in Hy. destruct Hy as [Hy|Hy]; [now apply Fx|].
    specialize (Ha x (or_introl eq_refl)). specialize (Hb y Hy). lia.
Qed.

Lemma repeat_sorted (x : Z) n : StronglySorted Z.le (repeat x n).
Proof.
  induction n as [|n IH]; cbn; constructor; [assumption|].
  rewrite Forall_forall. intros y Hy. apply repeat_spec in Hy. lia.
Qed.

Lemma blocks_sorted k m n : StronglySorted Z.le (blocks k m n).
Proof.
  revert k; induction m as [|m IH]; intros k; [constructor|]. cbn [blocks].
  apply (sorted_app_le _ _ (Z.of_nat k)); [apply repeat_sorted|apply IH| |].
  - intros x Hx. apply repeat_spec in Hx. lia.
  - intros y Hy. apply blocks_In in Hy. destruct Hy as [i [-> Hi]]. lia.
Qed.

Lemma isort_sorted_id {A} (le : A -> A -> bool) l :
  StronglySorted (fun a b => le a b = true) l -> isort le l = l.
Proof.
  intros S. induction S as [|x l S IH F]; [reflexivity|].
  cbn [isort fold_right]. fold (isort le l). rewrite IH.
  destruct l as [|y r]; [reflexivity|]. cbn [insert]. inversion F as [|? ? Hy _]; subst. now rewrite Hy.
Qed.

Lemma k2_mono (m : Z) (a b : ann) :
  snd (snd a) = (fst (snd a) <? m) -> snd (snd b) = (fst (snd b) <? m) -> fst (snd a) <= fst (snd b) ->
  key_le (k2 a) (k2 b) = true.
Proof.
  destruct a as [ra [va fa]], b as [rb [vb fb0]]. cbn [fst snd]. intros -> -> H.
  unfold k2, key2, key_le. cbn [fst snd rev app lex_le].
  destruct (Z.ltb_spec va m), (Z.ltb_spec vb m); cbn [negb b2z]; try lia;
    repeat (match goal with |- context [?x <? ?y] => destruct (Z.ltb_spec x y); try lia end); reflexivity.
Qed.

Lemma annot_sorted (m : Z) (AL : list ann) :
  StronglySorted Z.le (map (fun a : ann => fst (snd a)) AL) ->
  (forall a, In a AL -> snd (snd a) = (fst (snd a) <? m)) ->
  StronglySorted (fun a b => key_le (k2 a) (k2 b) = true) AL.
Proof.
  induction AL as [|a AL IH]; intros S H; [constructor|].
  cbn [map] in S. inversion S as [|? ? S' F]; subst. constructor.
  - apply IH; [assumption|]. intros b Hb. apply H. now right.
  - rewrite Forall_forall in *. intros b Hb. apply (k2_mono m).
    + apply H. now left. + apply H. now right.
    + apply F. apply (in_map (fun a : ann => fst (snd a))). exact Hb.
Qed.

Lemma map_vn_combine {A} (L : list A) (vn : list Z) (full : list bool) :
  length L = length vn -> length vn = length full ->
  map (fun a : A * (Z * bool) => fst (snd a)) (combine L (combine vn full)) = vn.
Proof.
  revert vn full; induction L as [|x L IH]; intros [|v vn] [|b full] H1 H2; cbn in *; try lia; try reflexivity.
  f_equal. apply IH; lia.
Qed.

Lemma in_annot_map {A} (g : Z -> bool) (L : list A) (vn : list Z) a :
  In a (combine L (combine vn (map g vn))) -> snd (snd a) = g (fst (snd a)).
Proof.
  revert vn; induction L as [|x L IH]; intros [|v vn] H; cbn in H; try tauto.
  destruct H as [<-|H]; [reflexivity|now apply IH in H].
Qed.

Lemma filter_true_count (g : Z -> bool) (vn : list Z) :
  length (filter (fun b : bool => b) (map g vn)) = length (filter g vn).
Proof. induction vn as [|v vn IH]; [reflexivity|]. cbn. destruct (g v); cbn; now rewrite IH. Qed.

Lemma filter_all_true {A} (p : A -> bool) l : (forall x, In x l -> p x = true) -> filter p l = l.
Proof.
  induction l as [|x l IH]; intros H; [reflexivity|]. cbn. rewrite (H x) by now left.
  f_equal. apply IH. intros y Hy. apply H. now right.
Qed.

Lemma filter_blocks_lt k m n t :
  filter (fun v => v <? Z.of_nat (k + m)) (blocks k m n ++ repeat (Z.of_nat (k + m)) t) = blocks k m n.
Proof.
  rewrite filter_app.
  assert (filter (fun v => v <? Z.of_nat (k + m)) (repeat (Z.of_nat (k + m)) t) = []) as ->.
  { induction t as [|t IH]; [reflexivity|]. cbn. now rewrite Z.ltb_irrefl. }
  rewrite app_nil_r. apply filter_all_true. intros v Hv.
  apply blocks_In in Hv. destruct Hv as [i [-> Hi]]. lia.
Qed.

(* C20_strict_complete_volumes *)
Lemma strict_complete_volumes smax recs Gs T idx :
  stage1 recs = concat Gs ++ T -> Gs <> [] -> 1 <= smax ->
  Forall (complete_group smax) Gs ->
  NoDup (map sl T) -> (forall s, In s (map sl T) -> 1 <= s <= smax) ->
  (exists s0, 1 <= s0 <= smax /\ ~ In s0 (map sl T)) ->
  sorted_slice_indices true smax recs = Some idx ->
  select dummy idx recs = concat Gs.
Proof.
  intros HL HG Hs F NT RT [s0 [Hs0 Ns0]] SI.
  set (L := stage1 recs) in *. set (m := length Gs). set (n := length (zrange 1 smax)).
  set (sn := map sl L).
  assert (Esn : sn = map sl (concat Gs) ++ map sl T) by (unfold sn; now rewrite HL, map_app).
  (* volume numbers of the key-ordered records *)
  assert (Evn : vol_numbers sn = blocks 0 m n ++ repeat (Z.of_nat m) (length T)).
  { unfold vol_numbers. rewrite Esn, (vna_groups smax Gs [] 0%nat (map sl T)); try assumption.
    - now rewrite map_length. - reflexivity. }
  (* the slice numbers are in range, so vol_is_full answers *)
  destruct (vol_is_full_spec sn smax) as [[IR [full [E [LF S]]]]|[NR _]].
  2:{ exfalso. apply NR. intros s Hin. rewrite Esn in Hin. apply in_app_or in Hin. destruct Hin as [Hin|Hin]; [|now apply RT].
      clear -Hin F. induction F as [|G Gs HG F IH]; [destruct Hin|]. cbn [concat] in Hin. rewrite map_app in Hin.
      apply in_app_or in Hin. destruct Hin as [Hin|Hin]; [rewrite HG in Hin; now apply zrange_In|now apply IH]. }
  assert (Cnt : forall s, 1 <= s <= smax -> cnt sn s = (m + cnt (map sl T) s)%nat).
  { intros s Hr. rewrite Esn, count_occ_app. now rewrite (cnt_groups smax Gs s F Hr). }
  assert (Efull : full = map (fun v => v <? Z.of_nat m) (vol_numbers sn)).
  { rewrite (full_as_map sn smax full E) at 1. apply map_ext_in. intros v Hv.
    pose proof (fb_fullv sn smax full v E Hv) as FB.
    rewrite Evn in Hv. apply in_app_or in Hv.
    destruct (Z.ltb_spec v (Z.of_nat m)) as [Hlt|Hge].
    - apply FB. intros s Hr. apply vn_in. destruct Hv as [Hv|Hv].
      + apply blocks_In in Hv. destruct Hv as [i [-> Hi]]. exists i. split; [reflexivity|]. rewrite (Cnt s Hr). lia.
      + apply repeat_spec in Hv. lia.
    - destruct (fb smax sn v) eqn:Efb; [|reflexivity]. exfalso.
      assert (FV : fullv sn smax v) by now apply FB.
      specialize (FV s0 Hs0). apply vn_in in FV. destruct FV as [k [-> Hk]].
      rewrite (Cnt s0 Hs0), (proj1 (count_occ_not_In Z.eq_dec (map sl T) s0) Ns0) in Hk. lia. }
  (* the second-stage sort leaves the key order unchanged *)
  pose proof (ssi_valid true smax recs idx SI) as [_ IRg].
  unfold sorted_slice_indices in SI.
  destruct (strict_sort_order smax recs) as [order|] eqn:EO; [|discriminate].
  destruct (n_used smax recs) as [nu|] eqn:ENU; [|discriminate]. inversion SI; subst idx. clear SI.
  destruct (order_records true smax recs order EO) as [full' [E' R]]. cbn [base_of kf_of] in E', R.
  fold L in E', R. fold sn in E'. rewrite E in E'. inversion E'; subst full'. clear E'.
  assert (Lvn : length (vol_numbers sn) = length sn) by apply vn_length.
  assert (Lsn : length sn = length L) by (unfold sn; apply map_length).
  rewrite isort_sorted_id in R.
  2:{ apply (annot_sorted (Z.of_nat m)).
      - unfold annot. fold sn. rewrite map_vn_combine by lia. rewrite Evn.
        apply (sorted_app_le _ _ (Z.of_nat m)); [apply blocks_sorted|apply repeat_sorted| |].
        + intros x Hx. apply blocks_In in Hx. destruct Hx as [i [-> Hi]]. lia.
        + intros y Hy. apply repeat_spec in Hy. lia.
      - intros a Ha. unfold annot in Ha. fold sn in Ha. rewrite Efull in Ha. now apply in_annot_map in Ha. }
  rewrite (annot_fst L smax full E) in R.
  rewrite select_firstn, R.
  (* the trim length is the number of records of the complete volumes *)
  assert (Hnu : nu = (m * n)%nat).
  { assert (PL : Permutation L recs) by apply stage1_perm.
    assert (Ps : Permutation sn (map sl recs)) by (unfold sn; now apply Permutation_map).
    assert (Cf : length (filter (fun b : bool => b) full) = (m * n)%nat).
    { rewrite Efull, filter_true_count, Evn.
      pose proof (filter_blocks_lt 0 m n (length T)) as FB0. cbn [Nat.add] in FB0. rewrite FB0. apply blocks_length. }
    pose proof (full_count sn smax full E) as FC. rewrite Cf in FC.
    pose proof (nvols_seq_perm _ _ smax Ps) as Q. unfold nvols_seq at 1 in Q. rewrite E in Q.
    rewrite <- n_vols_seq in Q. unfold n_used in ENU. rewrite <- Q in ENU. inversion ENU as [ENU'].
    unfold n_slices. rewrite <- (n_distinct_perm _ _ Ps).
    set (nd := n_distinct sn) in *.
    set (nv := n_distinct (map fst (filter snd (combine (vol_numbers sn) full)))) in *.
    assert (Hm : (1 <= m)%nat) by (unfold m; destruct Gs; [contradiction|cbn; lia]).
    assert (Hn : (1 <= n)%nat) by (unfold n, zrange; rewrite map_length, seq_length; lia).
    assert (nv <> 0)%nat by (intros Z0; rewrite Z0 in FC; nia).
    destruct (Nat.ltb_spec 1 nv); [lia|]. assert (nv = 1%nat) by lia. nia. }
  rewrite Hnu, HL.
  assert (Lc : length (concat Gs) = (m * n)%nat).
  { clear -F. unfold m, n. induction F as [|G Gs HG F IH]; [reflexivity|]. cbn [concat length].
    rewrite app_length, IH. apply (f_equal (@length Z)) in HG. rewrite map_length in HG. rewrite HG. lia. }
  rewrite <- Lc. apply firstn_app_exact.
Qed.

(* ------------------------------------------------------------ the key order groups records by label *)
(* keys r = slice number :: label keys; the slice number is the least significant sort key *)
Definition lab (r : rec) : list Z := tl (keys r).
Fixpoint zl_eqb (a b : list Z) : bool :=
  match a, b with
  | [], [] => true
  | x :: a', y :: b' => (x =? y) && zl_eqb a' b'
  | _, _ => false
  end.
Lemma zl_eqb_spec a b : zl_eqb a b = true <-> a = b.
Proof.
  revert b; induction a as [|x a IH]; intros [|y b]; cbn; split; intros H; try discriminate; try reflexivity.
  - apply andb_true_iff in H. destruct H as [H1 H2]. apply Z.eqb_eq in H1. apply IH in H2. now subst.
  - inversion H; subst. rewrite Z.eqb_refl. now apply IH.
Qed.
Definition same_lab (x r : rec) : bool := zl_eqb (lab r) (lab x).

(* lexicographic facts for tuples of equal length followed by one more (least significant) component *)
Lemma lex_snoc_le u v x y : length u = length v -> lex_le (u ++ [x]) (v ++ [y]) = true -> lex_le u v = true.
Proof.
  revert v; induction u as [|a u IH]; intros [|b v] L H; cbn in *; try lia; try reflexivity.
  destruct (a <? b); [reflexivity|]. destruct (b <? a); [discriminate|]. apply IH; [lia|assumption].
Qed.
Lemma lex_snoc_same u x y : lex_le (u ++ [x]) (u ++ [y]) = (x <=? y).
Proof.
  induction u as [|a u IH]; cbn.
  - destruct (Z.ltb_spec x y), (Z.ltb_spec y x), (Z.leb_spec x y); try lia; reflexivity.
  - now rewrite Z.ltb_irrefl.
Qed.
Lemma lex_snoc_gt u v x y : length u = length v -> lex_le u v = true -> u <> v -> lex_le (v ++ [y]) (u ++ [x]) = false.
Proof.
  revert v; induction u as [|a u IH]; intros [|b v] L H N; cbn in *; try lia; try congruence.
  destruct (Z.ltb_spec a b), (Z.ltb_spec b a); try lia; try reflexivity; try discriminate.
  assert (a = b) by lia. subst. apply IH; [lia|assumption|congruence].
Qed.

Record keyed (smax : Z) (l : list rec) : Prop := {
  k_shape : forall r, In r l -> keys r = sl r :: lab r;
  k_len : forall a b, In a l -> In b l -> length (keys a) = length (keys b);
  k_range : forall r, In r l -> 1 <= sl r <= smax;
  k_closed : forall r s, In r l -> 1 <= s <= smax -> exists r', In r' l /\ lab r' = lab r /\ sl r' = s
}.

Lemma keyed_filter smax l x : keyed smax l -> keyed smax (filter (fun r => negb (same_lab x r)) l).
Proof.
  intros [H1 H2 H3 H4]. split.
  - intros r Hr. apply filter_In in Hr. now apply H1.
  - intros a b Ha Hb. apply filter_In in Ha, Hb. now apply H2.
  - intros r Hr. apply filter_In in Hr. now apply H3.
  - intros r s Hr Hs. apply filter_In in Hr. destruct Hr as [Hr Nr].
    destruct (H4 r s Hr Hs) as [r' [Hr' [E1 E2]]]. exists r'. split; [|auto].
    apply filter_In. split; [assumption|]. unfold same_lab in *. now rewrite E1.
Qed.

Definition klt (a b : rec) : Prop := rec_le a b = true /\ keys a <> keys b.

Lemma rec_le_keys smax l a b : keyed smax l -> In a l -> In b l ->
  rec_le a b = lex_le (rev (lab a) ++ [sl a]) (rev (lab b) ++ [sl b]).
Proof.
  intros K Ha Hb. unfold rec_le, key_le. rewrite (k_shape _ _ K a Ha), (k_shape _ _ K b Hb). reflexivity.
Qed.

Lemma lab_len smax l a b : keyed smax l -> In a l -> In b l -> length (rev (lab a)) = length (rev (lab b)).
Proof.
  intros K Ha Hb. pose proof (k_len _ _ K a b Ha Hb) as E.
  rewrite (k_shape _ _ K a Ha), (k_shape _ _ K b Hb) in E. cbn in E. rewrite !rev_length. lia.
Qed.

Lemma StronglySorted_filter {A} (R : A -> A -> Prop) (p : A -> bool) l :
  StronglySorted R l -> StronglySorted R (filter p l).
Proof.
  intros S. induction S as [|x l S IH F]; [constructor|]. cbn. destruct (p x); [|assumption].
  constructor; [assumption|]. rewrite Forall_forall in *. intros y Hy. apply filter_In in Hy. now apply F.
Qed.

Lemma sorted_partition_in {A} (R : A -> A -> Prop) (p : A -> bool) l :
  StronglySorted R l -> (forall x y, In x l -> In y l -> p x = false -> p y = true -> ~ R x y) ->
  l = filter p l ++ filter (fun x => negb (p x)) l.
Proof.
  intros S. induction S as [|a r Sr IH F]; intros H; [reflexivity|].
  assert (H' : forall x y, In x r -> In y r -> p x = false -> p y = true -> ~ R x y)
    by (intros x y Hx Hy; apply H; now right).
  cbn [filter]. destruct (p a) eqn:E; cbn [negb app].
  - now rewrite <- IH.
  - rewrite Forall_forall in F.
    assert (Hn : forall y, In y r -> p y = false).
    { intros y Hy. destruct (p y) eqn:Ey; [|reflexivity]. exfalso.
      exact (H a y (or_introl eq_refl) (or_intror Hy) E Ey (F y Hy)). }
    assert (filter p r = []) as ->.
    { clear -Hn. induction r as [|y r IHr]; [reflexivity|]. cbn. rewrite (Hn y) by now left.
      apply IHr. intros z Hz. apply Hn. now right. }
    rewrite (filter_all_true (fun x => negb (p x)) r); [reflexivity|].
    intros y Hy. now rewrite (Hn y Hy).
Qed.

Fixpoint groups (fuel : nat) (l : list rec) : list (list rec) :=
  match fuel, l with
  | S f, x :: _ => filter (same_lab x) l :: groups f (filter (fun r => negb (same_lab x r)) l)
  | _, _ => []
  end.

Lemma StronglySorted_map_in {A B} (R : A -> A -> Prop) (R' : B -> B -> Prop) (f : A -> B) l :
  StronglySorted R l -> (forall a b, In a l -> In b l -> R a b -> R' (f a) (f b)) -> StronglySorted R' (map f l).
Proof.
  intros S. induction S as [|x l S IH F]; intros H; [constructor|]. cbn. constructor.
  - apply IH. intros a b Ha Hb. apply H; now right.
  - rewrite Forall_forall in *. intros y Hy. apply in_map_iff in Hy. destruct Hy as [b [<- Hb]].
    apply H; [now left|now right|now apply F].
Qed.

Lemma sorted_lt_NoDup (l : list Z) : StronglySorted Z.lt l -> NoDup l.
Proof.
  intros S. induction S as [|x l S IH F]; constructor; [|assumption].
  rewrite Forall_forall in F. intros Hx. specialize (F x Hx). lia.
Qed.

Lemma zrange_sorted lo hi : StronglySorted Z.lt (zrange lo hi).
Proof.
  unfold zrange. generalize (Z.to_nat (hi + 1 - lo)) as n. intros n.
  assert (G : forall k, StronglySorted Z.lt (map (fun i => lo + Z.of_nat i) (seq k n))).
  { induction n as [|n IH]; intros k; cbn; constructor; [apply IH|].
    rewrite Forall_forall. intros y Hy. apply in_map_iff in Hy. destruct Hy as [i [<- Hi]]. apply in_seq in Hi. lia. }
  apply G.
Qed.

Definition one_label (G : list rec) : Prop := forall a b, In a G -> In b G -> lab a = lab b.

Lemma groups_spec smax : forall fuel l,
  keyed smax l -> StronglySorted klt l -> (length l <= fuel)%nat ->
  concat (groups fuel l) = l /\ Forall (complete_group smax) (groups fuel l) /\ Forall one_label (groups fuel l).
Proof.
  induction fuel as [|f IH]; intros l K S Len.
  - destruct l; [cbn; auto|cbn in Len; lia].
  - destruct l as [|x l']; [cbn; auto|]. cbn [groups].
    set (l := x :: l') in *. set (p := same_lab x).
    assert (Hx : In x l) by now left.
    assert (px : p x = true) by (unfold p, same_lab; now apply zl_eqb_spec).
    assert (Hhead : forall a, In a l -> p a = false -> lex_le (rev (lab x)) (rev (lab a)) = true /\ rev (lab x) <> rev (lab a)).
    { intros a Ha Pa. destruct Ha as [<-|Ha]; [congruence|].
      inversion S as [|? ? _ F]; subst. rewrite Forall_forall in F. destruct (F a Ha) as [Le _].
      rewrite (rec_le_keys smax l x a K Hx (or_intror Ha)) in Le. split.
      - eapply lex_snoc_le; [|exact Le]. exact (lab_len smax l x a K Hx (or_intror Ha)).
      - intros E. apply (f_equal (@rev Z)) in E. rewrite !rev_involutive in E.
        unfold p, same_lab in Pa. rewrite <- E in Pa. rewrite (proj2 (zl_eqb_spec _ _) eq_refl) in Pa. discriminate. }
    assert (Part : l = filter p l ++ filter (fun r => negb (p r)) l).
    { apply (sorted_partition_in klt); [assumption|].
      intros a b Ha Hb Pa Pb [Le _]. destruct (Hhead a Ha Pa) as [L1 N1].
      rewrite (rec_le_keys smax l a b K Ha Hb) in Le.
      apply zl_eqb_spec in Pb. rewrite Pb in Le.
      rewrite (lex_snoc_gt (rev (lab x)) (rev (lab a)) (sl b) (sl a)) in Le; [discriminate| |assumption|assumption].
      exact (lab_len smax l x a K Hx Ha). }
    assert (Lr : (length (filter (fun r => negb (p r)) l) <= f)%nat).
    { apply (f_equal (@length rec)) in Part. rewrite app_length in Part.
      assert (1 <= length (filter p l))%nat; [|unfold l in *; cbn [length] in *; lia].
      change (filter p l) with (if p x then x :: filter p l' else filter p l'). rewrite px. cbn. lia. }
    destruct (IH (filter (fun r => negb (p r)) l) (keyed_filter smax l x K) (StronglySorted_filter _ _ _ S) Lr)
      as [C1 [C2 C3]].
    split; [|split].
    + cbn [concat]. fold p. rewrite C1. now rewrite <- Part.
    + constructor; [|exact C2]. fold p. unfold complete_group.
      set (G := filter p l).
      assert (SG : StronglySorted Z.lt (map sl G)).
      { apply (StronglySorted_map_in klt); [now apply StronglySorted_filter|].
        intros a b Ha Hb [Le Ne]. apply filter_In in Ha, Hb. destruct Ha as [Ha Pa], Hb as [Hb Pb].
        apply zl_eqb_spec in Pa, Pb.
        rewrite (rec_le_keys smax l a b K Ha Hb), Pa, Pb, lex_snoc_same in Le.
        rewrite (k_shape _ _ K a Ha), (k_shape _ _ K b Hb), Pa, Pb in Ne.
        assert (sl a <> sl b) by congruence. lia. }
      apply (sort_perm_unique Z.lt); try assumption; try apply zrange_sorted; try (intros; lia).
      apply NoDup_Permutation; [now apply sorted_lt_NoDup|apply zrange_NoDup|].
      intros s. rewrite zrange_In, in_map_iff. split.
      * intros [r [<- Hr]]. apply filter_In in Hr. now apply (k_range _ _ K).
      * intros Hs. destruct (k_closed _ _ K x s Hx Hs) as [r' [Hr' [E1 E2]]]. exists r'. split; [assumption|].
        apply filter_In. split; [assumption|]. unfold p, same_lab. now apply zl_eqb_spec.
    + constructor; [|exact C3]. fold p. intros a b Ha Hb. apply filter_In in Ha, Hb.
      destruct Ha as [_ Pa], Hb as [_ Pb]. apply zl_eqb_spec in Pa, Pb. congruence.
Qed.

Lemma keyed_perm smax l l' : Permutation l l' -> keyed smax l -> keyed smax l'.
Proof.
  intros P [H1 H2 H3 H4].
  assert (I : forall r, In r l' -> In r l) by (intros r; apply Permutation_in; now symmetry).
  assert (I' : forall r, In r l -> In r l') by (intros r; now apply Permutation_in).
  split; auto.
  intros r s Hr Hs. destruct (H4 r s (I r Hr) Hs) as [r' [Hr' E]]. exists r'. auto.
Qed.

(* the key-sorted list of a recording whose label groups are complete IS the sequence of its volumes *)
Lemma labelled_blocks smax recs :
  keyed smax recs -> NoDup (map keys recs) ->
  let Gs := groups (length (stage1 recs)) (stage1 recs) in
  stage1 recs = concat Gs /\ Forall (complete_group smax) Gs /\ Forall one_label Gs.
Proof.
  intros K N Gs.
  assert (K' : keyed smax (stage1 recs)) by (apply (keyed_perm smax recs); [symmetry; apply stage1_perm|assumption]).
  assert (S : StronglySorted klt (stage1 recs)).
  { unfold klt. apply (sorted_strict rec_le keys).
    - apply isort_sorted; unfold rec_le; intros; [apply key_le_total|eapply key_le_trans; eassumption].
    - eapply Permutation_NoDup; [|exact N]. apply Permutation_map. symmetry. apply stage1_perm. }
  destruct (groups_spec smax (length (stage1 recs)) (stage1 recs) K' S (le_n _)) as [C1 [C2 C3]].
  split; [now symmetry|split; assumption].
Qed.

(* C20_strict_labelled_volumes: the theorem about `recs` itself *)
Lemma strict_labelled_volumes smax recs idx :
  keyed smax recs -> NoDup (map keys recs) -> recs <> [] -> 1 <= smax ->
  sorted_slice_indices true smax recs = Some idx ->
  let Gs := groups (length (stage1 recs)) (stage1 recs) in
  select dummy idx recs = concat Gs /\ Permutation (concat Gs) recs /\
  Forall (complete_group smax) Gs /\ Forall one_label Gs.
Proof.
  intros K N NE Hs SI Gs. destruct (labelled_blocks smax recs K N) as [C1 [C2 C3]]. fold Gs in C1, C2, C3.
  split; [|split; [rewrite <- C1; apply stage1_perm|split; assumption]].
  apply (strict_complete_volumes smax recs Gs []); try assumption.
  - now rewrite app_nil_r.
  - intros E. rewrite E in C1. cbn in C1. apply NE.
    apply Permutation_nil. rewrite <- C1. apply stage1_perm.
  - constructor.
  - intros s [].
  - exists 1. split; [lia|intros []].
Qed.

(* C20_strict_load_by_label: end to end, for ANY record order of a recording with complete label groups *)
Lemma strict_load_by_label fone fdiv fmul permit fp expd smax nlab recs recs' idx o :
  Permutation recs recs' -> keyed smax recs -> NoDup (map keys recs) -> recs <> [] -> 1 <= smax ->
  load fone fdiv fmul true permit fp expd smax nlab recs' = Ok (idx, o) ->
  let Gs := groups (length (stage1 recs)) (stage1 recs) in
  Permutation (concat Gs) recs /\ Forall (complete_group smax) Gs /\ Forall one_label Gs /\
  select dummy idx recs' = concat Gs /\
  o_payload o = map pid (concat Gs) /\
  o_slope o = map (slope_of fone fdiv fp) (concat Gs) /\
  o_inter o = map (inter_of fdiv fmul fp) (concat Gs).
Proof.
  intros P K N NE Hs L Gs.
  assert (K' : keyed smax recs') by now apply (keyed_perm smax recs).
  assert (N' : NoDup (map keys recs')) by (eapply Permutation_NoDup; [apply Permutation_map; exact P|exact N]).
  assert (NE' : recs' <> []) by (intros E; subst; apply NE; now apply Permutation_nil; symmetry).
  assert (ES : stage1 recs' = stage1 recs) by (symmetry; now apply stage1_perm_invariant).
  destruct (load_ok fone fdiv fmul _ _ _ _ _ _ _ _ _ L) as [_ [SI [nv [_ ->]]]].
  destruct (strict_labelled_volumes smax recs' idx K' N' NE' Hs SI) as [C1 [C2 [C3 C4]]].
  rewrite ES in C1, C2, C3, C4. fold Gs in C1, C2, C3, C4.
  split; [now rewrite C2; symmetry|]. split; [assumption|]. split; [assumption|]. split; [assumption|].
  cbn [obs_of o_payload o_slope o_inter]. now rewrite C1.
Qed.
