(* C20/ListPerm.v — stable insertion sort, Permutation, uniqueness of sorted lists under a
   strict total order, lexicographic order on key tuples, np.lexsort as a record sort.
   Proofs about the generic definitions of C20/Model.v; no axioms. *)
From Coq Require Import ZArith List Bool Lia ZifyBool Permutation Sorted.
From NV Require Import C20.Model.
Import ListNotations.
Open Scope Z_scope.

(* ------------------------------------------------------------ insertion sort *)
Section Sort.
  Context {A : Type}.
  Variable le : A -> A -> bool.

  Lemma insert_perm x l : Permutation (insert le x l) (x :: l).
  Proof.
    induction l as [|y r IH]; cbn [insert]; [reflexivity|].
    destruct (le x y); [reflexivity|].
    rewrite IH. apply perm_swap.
  Qed.

  Lemma isort_perm l : Permutation (isort le l) l.
  Proof.
    induction l as [|x r IH]; cbn [isort fold_right]; [reflexivity|].
    fold (isort le r). rewrite insert_perm. now constructor.
  Qed.

  Lemma isort_length l : length (isort le l) = length l.
  Proof. apply Permutation_length, isort_perm. Qed.

  Lemma isort_in x l : In x (isort le l) <-> In x l.
  Proof. split; apply Permutation_in; [|symmetry]; apply isort_perm. Qed.

  Hypothesis le_total : forall x y, le x y = true \/ le y x = true.
  Hypothesis le_trans : forall x y z, le x y = true -> le y z = true -> le x z = true.

  Lemma insert_sorted x l :
    StronglySorted (fun a b => le a b = true) l ->
    StronglySorted (fun a b => le a b = true) (insert le x l).
  Proof.
    induction l as [|y r IH]; intros H; cbn [insert].
    - repeat constructor.
    - inversion H as [|? ? Hr Hy]; subst.
      destruct (le x y) eqn:E.
      + constructor; [assumption|]. constructor; [assumption|].
        rewrite Forall_forall in *. intros z Hz. eapply le_trans; [exact E|]. now apply Hy.
      + constructor; [now apply IH|].
        rewrite Forall_forall in *. intros z Hz.
        apply (Permutation_in _ (insert_perm x r)) in Hz. destruct Hz as [<-|Hz].
        * destruct (le_total x y) as [C|C]; [congruence|assumption].
        * now apply Hy.
  Qed.

  Lemma isort_sorted l : StronglySorted (fun a b => le a b = true) (isort le l).
  Proof.
    induction l as [|x r IH]; cbn [isort fold_right]; [constructor|].
    now apply insert_sorted.
  Qed.
End Sort.

(* sorting commutes with a projection that carries the order (only on the elements present) *)
Lemma insert_map {A B} (f : A -> B) le1 le2 x l :
  (forall b, In b l -> le1 x b = le2 (f x) (f b)) ->
  map f (insert le1 x l) = insert le2 (f x) (map f l).
Proof.
  induction l as [|y r IH]; intros H; cbn [insert map]; [reflexivity|].
  rewrite <- (H y) by now left. destruct (le1 x y); cbn [map]; [reflexivity|].
  rewrite IH; [reflexivity|]. intros b Hb. apply H. now right.
Qed.

Lemma isort_map {A B} (f : A -> B) le1 le2 l :
  (forall a b, In a l -> In b l -> le1 a b = le2 (f a) (f b)) ->
  map f (isort le1 l) = isort le2 (map f l).
Proof.
  induction l as [|x r IH]; intros H; [reflexivity|].
  cbn [isort fold_right map]. fold (isort le1 r). fold (isort le2 (map f r)).
  rewrite <- IH by (intros a b Ha Hb; apply H; now right).
  apply insert_map. intros b Hb. apply H; [now left|]. right. now apply isort_in in Hb.
Qed.

Lemma isort_ext {A} (le1 le2 : A -> A -> bool) l :
  (forall a b, In a l -> In b l -> le1 a b = le2 a b) -> isort le1 l = isort le2 l.
Proof.
  intros H. transitivity (map (fun x => x) (isort le1 l)); [symmetry; apply map_id|].
  rewrite (isort_map (fun x => x) le1 le2) by assumption. now rewrite map_id.
Qed.

(* ------------------------------------------------------------ uniqueness *)
(* a list sorted under an irreflexive transitive relation is unique among its permutations *)
Lemma sort_perm_unique {A} (lt : A -> A -> Prop) :
  (forall x, ~ lt x x) -> (forall x y z, lt x y -> lt y z -> lt x z) ->
  forall l1 l2, Permutation l1 l2 -> StronglySorted lt l1 -> StronglySorted lt l2 -> l1 = l2.
Proof.
  intros irr tr. induction l1 as [|a r1 IH]; intros l2 P S1 S2.
  - apply Permutation_nil in P. now subst.
  - destruct l2 as [|b r2]; [symmetry in P; now apply Permutation_nil in P|].
    inversion S1 as [|? ? S1r F1]; inversion S2 as [|? ? S2r F2]; subst.
    rewrite Forall_forall in F1, F2.
    assert (a = b) as ->.
    { assert (Ha : In a (b :: r2)) by (eapply Permutation_in; [exact P|now left]).
      assert (Hb : In b (a :: r1)) by (eapply Permutation_in; [symmetry; exact P|now left]).
      destruct Ha as [->|Ha]; [reflexivity|]. destruct Hb as [->|Hb]; [reflexivity|].
      exfalso. apply (irr a). eapply tr; [apply F1; exact Hb|apply F2; exact Ha]. }
    f_equal. apply IH; [|assumption|assumption]. eapply Permutation_cons_inv; exact P.
Qed.

(* strictly sorted = sorted + pairwise distinct keys *)
Lemma sorted_strict {A K} (le : A -> A -> bool) (key : A -> K) l :
  StronglySorted (fun a b => le a b = true) l -> NoDup (map key l) ->
  StronglySorted (fun a b => le a b = true /\ key a <> key b) l.
Proof.
  induction l as [|x r IH]; intros S N; [constructor|].
  inversion S as [|? ? Sr F]; subst. cbn [map] in N. inversion N as [|? ? Hx Nr]; subst.
  constructor; [now apply IH|].
  rewrite Forall_forall in *. intros y Hy. split; [now apply F|].
  intros E. apply Hx. rewrite E. now apply in_map.
Qed.

(* the sort of any permutation of a list with pairwise distinct keys is the same list *)
Lemma isort_perm_invariant {A K} (le : A -> A -> bool) (key : A -> K) :
  (forall x y, le x y = true \/ le y x = true) ->
  (forall x y z, le x y = true -> le y z = true -> le x z = true) ->
  (forall x y, le x y = true -> le y x = true -> key x = key y) ->
  (forall x y, key x = key y -> le x y = true) ->
  forall l1 l2, Permutation l1 l2 -> NoDup (map key l1) -> isort le l1 = isort le l2.
Proof.
  intros tot tr anti kr l1 l2 P N.
  apply (sort_perm_unique (fun a b => le a b = true /\ key a <> key b)).
  - intros x [_ H]. now apply H.
  - intros x y z [H1 N1] [H2 N2]. split; [eauto|].
    intros E. apply N1. apply anti; [assumption|]. apply (tr y z x); [assumption|].
    apply kr. now symmetry.
  - rewrite (isort_perm le l1), P. symmetry. apply isort_perm.
  - apply sorted_strict; [now apply isort_sorted|].
    eapply Permutation_NoDup; [|exact N]. apply Permutation_map. symmetry. apply isort_perm.
  - apply sorted_strict; [now apply isort_sorted|].
    eapply Permutation_NoDup; [|exact N]. apply Permutation_map.
    rewrite P. symmetry. apply isort_perm.
Qed.

(* ------------------------------------------------------------ sorted by a primary flag *)
Lemma sorted_partition {A} (R : A -> A -> Prop) (p : A -> bool) l :
  StronglySorted R l -> (forall x y, p x = false -> p y = true -> ~ R x y) ->
  l = filter p l ++ filter (fun x => negb (p x)) l.
Proof.
  intros S H. induction S as [|a r Sr IH F]; [reflexivity|].
  cbn [filter]. destruct (p a) eqn:E; cbn [negb app].
  - now rewrite <- IH.
  - rewrite Forall_forall in F.
    assert (Hn : forall y, In y r -> p y = false).
    { intros y Hy. destruct (p y) eqn:Ey; [|reflexivity]. exfalso. exact (H a y E Ey (F y Hy)). }
    assert (filter p r = []) as ->.
    { clear -Hn. induction r as [|y r IHr]; [reflexivity|]. cbn [filter].
      rewrite (Hn y) by now left. apply IHr. intros z Hz. apply Hn. now right. }
    assert (filter (fun x => negb (p x)) r = r) as ->; [|reflexivity].
    clear -Hn. induction r as [|y r IHr]; [reflexivity|]. cbn [filter].
    rewrite (Hn y) by now left. cbn [negb]. f_equal. apply IHr. intros z Hz. apply Hn. now right.
Qed.

Lemma firstn_app_exact {A} (a r : list A) : firstn (length a) (a ++ r) = a.
Proof. rewrite firstn_app, Nat.sub_diag, firstn_all. cbn. apply app_nil_r. Qed.

(* ------------------------------------------------------------ lexicographic order *)
Lemma lex_le_refl a : lex_le a a = true.
Proof. induction a as [|x a IH]; [reflexivity|]. cbn [lex_le]. rewrite Z.ltb_irrefl. exact IH. Qed.

Lemma lex_le_total a b : lex_le a b = true \/ lex_le b a = true.
Proof.
  revert b; induction a as [|x a IH]; intros [|y b]; cbn [lex_le]; auto.
  destruct (Z.ltb_spec x y), (Z.ltb_spec y x); auto; lia.
Qed.

Lemma lex_le_trans a b c : lex_le a b = true -> lex_le b c = true -> lex_le a c = true.
Proof.
  revert b c; induction a as [|x a IH]; intros [|y b] [|z c]; cbn [lex_le]; try congruence.
  destruct (Z.ltb_spec x y), (Z.ltb_spec y x), (Z.ltb_spec y z), (Z.ltb_spec z y),
    (Z.ltb_spec x z), (Z.ltb_spec z x); try congruence; try lia.
  apply IH.
Qed.

Lemma lex_le_antisym a b : lex_le a b = true -> lex_le b a = true -> a = b.
Proof.
  revert b; induction a as [|x a IH]; intros [|y b]; cbn [lex_le]; try congruence.
  destruct (Z.ltb_spec x y), (Z.ltb_spec y x); try congruence; try lia.
  intros H1 H2. f_equal; [lia|now apply IH].
Qed.

Lemma key_le_total a b : key_le a b = true \/ key_le b a = true.
Proof. apply lex_le_total. Qed.
Lemma key_le_trans a b c : key_le a b = true -> key_le b c = true -> key_le a c = true.
Proof. apply lex_le_trans. Qed.
Lemma key_le_antisym a b : key_le a b = true -> key_le b a = true -> a = b.
Proof.
  unfold key_le. intros H1 H2. pose proof (lex_le_antisym _ _ H1 H2) as E.
  rewrite <- (rev_involutive a), <- (rev_involutive b). now f_equal.
Qed.

(* ------------------------------------------------------------ positions and fancy indexing *)
Lemma map_nth_seq_app {A} (d : A) p l :
  map (fun i => nth i (p ++ l) d) (seq (length p) (length l)) = l.
Proof.
  revert p; induction l as [|x l IH]; intros p; [reflexivity|].
  cbn [length seq map]. rewrite app_nth2, Nat.sub_diag by lia. cbn [nth]. f_equal.
  replace (p ++ x :: l) with ((p ++ [x]) ++ l) by now rewrite <- app_assoc.
  replace (S (length p)) with (length (p ++ [x])) by (rewrite app_length; cbn; lia).
  apply IH.
Qed.

Lemma select_seq {A} (d : A) l : select d (seq 0 (length l)) l = l.
Proof. exact (map_nth_seq_app d [] l). Qed.

Lemma map_fst_combine {A B} (a : list A) (b : list B) :
  length a = length b -> map fst (combine a b) = a.
Proof.
  revert b; induction a as [|x a IH]; intros [|y b] H; cbn in *; try congruence; try reflexivity.
  f_equal. apply IH. lia.
Qed.

Lemma map_snd_combine {A B} (a : list A) (b : list B) :
  length a = length b -> map snd (combine a b) = b.
Proof.
  revert b; induction a as [|x a IH]; intros [|y b] H; cbn in *; try congruence; try reflexivity.
  f_equal. apply IH. lia.
Qed.

Lemma in_combine_seq {B} (b : list B) (d : B) i y :
  In (i, y) (combine (seq 0 (length b)) b) -> (i < length b)%nat /\ nth i b d = y.
Proof.
  intros H. apply (In_nth _ _ (O, d)) in H. destruct H as [j [Hj E]].
  rewrite combine_length, seq_length, Nat.min_id in Hj.
  rewrite combine_nth in E by now rewrite seq_length.
  rewrite seq_nth in E by assumption. cbn in E. inversion E; subst. auto.
Qed.

(* np.lexsort of the key rows of l, used as a fancy index into l, is the stable sort of l *)
Lemma select_lexsort {A} (d : A) (key : A -> list Z) (l : list A) :
  select d (lexsort (map key l)) l = isort (fun a b => key_le (key a) (key b)) l.
Proof.
  unfold select, lexsort. rewrite map_map.
  set (P := combine (seq 0 (length (map key l))) (map (@rev Z) (map key l))).
  set (g := fun p : nat * list Z => nth (fst p) l d).
  assert (HP : forall p, In p P -> snd p = rev (key (g p))).
  { intros [i y] Hp. unfold P in Hp.
    replace (length (map key l)) with (length (map (@rev Z) (map key l))) in Hp by now rewrite !map_length.
    apply (in_combine_seq _ (rev (key d))) in Hp. destruct Hp as [Hi E].
    rewrite !map_length in Hi. cbn [fst snd]. unfold g. cbn [fst].
    rewrite <- E. rewrite map_map. rewrite (map_nth (fun x => rev (key x))). reflexivity. }
  rewrite (isort_map g _ (fun a b => key_le (key a) (key b))).
  - f_equal. unfold P, g. rewrite <- (map_map fst (fun i => nth i l d)).
    rewrite map_fst_combine by now rewrite seq_length, !map_length.
    rewrite map_length. apply select_seq.
  - intros a b Ha Hb. unfold key_le. now rewrite <- !HP.
Qed.

Lemma lexsort_perm ks : Permutation (lexsort ks) (seq 0 (length ks)).
Proof.
  unfold lexsort. rewrite isort_perm. rewrite map_fst_combine; [reflexivity|].
  now rewrite seq_length, map_length.
Qed.

Lemma lexsort_length ks : length (lexsort ks) = length ks.
Proof. rewrite (Permutation_length (lexsort_perm ks)). apply seq_length. Qed.

Lemma lexsort_in_range ks i : In i (lexsort ks) -> (i < length ks)%nat.
Proof. intros H. apply (Permutation_in _ (lexsort_perm ks)) in H. apply in_seq in H. lia. Qed.

Lemma lexsort_nodup ks : NoDup (lexsort ks).
Proof. eapply Permutation_NoDup; [symmetry; apply lexsort_perm|apply seq_NoDup]. Qed.

(* composition of fancy indexes: a[iso][o2] = a[iso[o2]] when o2 is in range *)
Lemma select_select {A} (d : A) (o2 iso : list nat) (l : list A) :
  (forall j, In j o2 -> (j < length iso)%nat) ->
  select d (select O o2 iso) l = select d o2 (select d iso l).
Proof.
  intros H. unfold select. rewrite map_map. apply map_ext_in. intros j Hj.
  symmetry. rewrite (nth_indep _ d (nth O l d)) by (rewrite map_length; now apply H).
  apply (map_nth (fun i => nth i l d)).
Qed.

Lemma select_map {A B} (f : A -> B) (d : A) idx l : select (f d) idx (map f l) = map f (select d idx l).
Proof. unfold select. rewrite map_map. apply map_ext. intros i. apply map_nth. Qed.

Lemma select_firstn {A} (d : A) n idx l : select d (firstn n idx) l = firstn n (select d idx l).
Proof. unfold select. symmetry. apply firstn_map. Qed.

Lemma select_map_indep {A B} (f : A -> B) (d : A) (e : B) idx l :
  (forall i, In i idx -> (i < length l)%nat) -> select e idx (map f l) = map f (select d idx l).
Proof.
  intros H. unfold select. rewrite map_map. apply map_ext_in. intros i Hi.
  rewrite (nth_indep _ e (f d)) by (rewrite map_length; now apply H). apply map_nth.
Qed.

(* ------------------------------------------------------------ stability *)
(* the stable sort keeps, for every key, the subsequence of the elements with that key; and a
   sorted list is determined by these subsequences.  keq a b decides "same key" and le orders keys *)
Section Stable.
  Context {A : Type}.
  Variable le : A -> A -> bool.
  Variable keq : A -> A -> bool.
  Hypothesis keq_le : forall x y, keq x y = true -> le x y = true.
  Hypothesis keq_sym : forall x y, keq x y = keq y x.
  Hypothesis keq_trans : forall x y z, keq x y = true -> keq y z = true -> keq x z = true.
  Hypothesis keq_refl : forall x, keq x x = true.
  Hypothesis le_antisym : forall x y, le x y = true -> le y x = true -> keq x y = true.
  Hypothesis le_trans : forall x y z, le x y = true -> le y z = true -> le x z = true.

  Lemma insert_filter k x l :
    filter (keq k) (insert le x l) = if keq k x then x :: filter (keq k) l else filter (keq k) l.
  Proof.
    induction l as [|y r IH]; cbn [insert filter]; [reflexivity|].
    destruct (le x y) eqn:E; cbn [filter]; [reflexivity|].
    rewrite IH. destruct (keq k x) eqn:Kx, (keq k y) eqn:Ky; try reflexivity.
    exfalso. assert (keq x y = true) by (apply (keq_trans x k y); [now rewrite keq_sym|assumption]).
    apply keq_le in H. congruence.
  Qed.

  Lemma isort_filter k l : filter (keq k) (isort le l) = filter (keq k) l.
  Proof.
    induction l as [|x r IH]; [reflexivity|]. cbn [isort fold_right filter]. fold (isort le r).
    rewrite insert_filter, IH. reflexivity.
  Qed.

  Lemma sorted_filter_unique : forall l l',
    StronglySorted (fun a b => le a b = true) l -> StronglySorted (fun a b => le a b = true) l' ->
    (forall k, filter (keq k) l = filter (keq k) l') -> l = l'.
  Proof.
    induction l as [|a r IH]; intros l' S S' H.
    - destruct l' as [|b r']; [reflexivity|]. specialize (H b). cbn in H. rewrite keq_refl in H. discriminate.
    - destruct l' as [|b r']; [specialize (H a); cbn in H; rewrite keq_refl in H; discriminate|].
      inversion S as [|? ? Sr Fa]; inversion S' as [|? ? Sr' Fb]; subst. rewrite Forall_forall in Fa, Fb.
      assert (In_l' : forall x, In x (a :: r) -> In x (b :: r')).
      { intros x Hx. assert (Hf : In x (filter (keq x) (a :: r))) by (apply filter_In; split; [assumption|apply keq_refl]).
        rewrite H in Hf. now apply filter_In in Hf. }
      assert (In_l : forall x, In x (b :: r') -> In x (a :: r)).
      { intros x Hx. assert (Hf : In x (filter (keq x) (b :: r'))) by (apply filter_In; split; [assumption|apply keq_refl]).
        rewrite <- H in Hf. now apply filter_In in Hf. }
      assert (Lab : le a b = true).
      { destruct (In_l b (or_introl eq_refl)) as [->|Hb]; [apply keq_le, keq_refl|now apply Fa]. }
      assert (Lba : le b a = true).
      { destruct (In_l' a (or_introl eq_refl)) as [->|Ha]; [apply keq_le, keq_refl|now apply Fb]. }
      assert (Kab : keq a b = true) by now apply le_antisym.
      assert (a = b).
      { pose proof (H a) as Ha. cbn [filter] in Ha. rewrite keq_refl, Kab in Ha. now inversion Ha. }
      subst b. f_equal. apply IH; try assumption.
      intros k. pose proof (H k) as Hk. cbn [filter] in Hk. destruct (keq k a); [now inversion Hk|assumption].
  Qed.

  Hypothesis le_total : forall x y, le x y = true \/ le y x = true.

  (* the stable sort depends on the list only through its per-key subsequences *)
  Lemma isort_stable_invariant l l' :
    (forall k, filter (keq k) l = filter (keq k) l') -> isort le l = isort le l'.
  Proof.
    intros H. apply sorted_filter_unique; try (now apply isort_sorted).
    intros k. now rewrite !isort_filter.
  Qed.
End Stable.
