(* C01/Model.v — lossless voxel round trip: the slab-writing loop of volumeutils._write_data
   (direct-cast route of array_to_file), array_from_file (F-order read) and the file layouts of the
   writable volume classes.  Definitions only.
   Counterparts in /repo/nibabel:
     volumeutils._write_data (squeeze, atleast_2d / .T, loop over the first axis, tobytes)
                                              -> write_data
     volumeutils.array_from_file (seek, read n bytes, ndarray(shape, dtype, buffer, order='F'))
                                              -> read_data
     analyze.AnalyzeImage.to_file_map (header, seek_tell(write0) to vox_offset, data)
       + nifti1.Nifti1Header.write_to (extender)  -> write_single / write_pair_img
     freesurfer.mghformat.MGHImage.to_file_map (90-byte header at 0, data at 284, footer)
                                              -> write_mgh, mgh_shape
   An array is a shape (any rank) and a total function from multi-indices to elements; an element
   is the list of its fixed-width words as unsigned integers (1 word for integers and floats - the
   IEEE bit pattern -, 2 for complex, 3/4 for RGB/RGBA), so NaN payloads and infinities are
   preserved by construction.  Bytes are Z in [0,256); be = true: big endian. *)
From Coq Require Import ZArith List Bool Arith.
From NV Require Import Base.Bytes.
Import ListNotations.
Open Scope nat_scope.

Notation index := (list nat) (only parsing).
Notation shape := (list nat) (only parsing).
Definition arr (A : Type) : Type := (shape * (index -> A))%type.

Definition size (sh : shape) : nat := fold_right Nat.mul 1%nat sh.

(* C order: last index fastest; F order: first index fastest *)
Fixpoint enum_C (sh : shape) : list index :=
  match sh with
  | [] => [[]]
  | d :: r => flat_map (fun i => map (cons i) (enum_C r)) (seq 0 d)
  end.
Fixpoint enum_F (sh : shape) : list index :=
  match sh with
  | [] => [[]]
  | d :: r => flat_map (fun t => map (fun i => i :: t) (seq 0 d)) (enum_F r)
  end.
Fixpoint lin_C (sh : shape) (ix : index) : nat :=
  match sh, ix with
  | d :: r, i :: t => i * size r + lin_C r t
  | _, _ => 0
  end.
Fixpoint lin_F (sh : shape) (ix : index) : nat :=
  match sh, ix with
  | d :: r, i :: t => i + d * lin_F r t
  | _, _ => 0
  end.

(* arr.ravel(order) *)
Definition flatten_F {A} (a : arr A) : list A := map (snd a) (enum_F (fst a)).
Definition flatten_C {A} (a : arr A) : list A := map (snd a) (enum_C (fst a)).
(* the array whose C-order (nested list) content is l / whose F-order content is l *)
Definition of_C_list {A} (d : A) (sh : shape) (l : list A) : arr A := (sh, fun ix => nth (lin_C sh ix) l d).
Definition of_F_list {A} (d : A) (sh : shape) (l : list A) : arr A := (sh, fun ix => nth (lin_F sh ix) l d).

(* np.squeeze: drop the axes of length 1 *)
Definition squeeze_shape (sh : shape) : shape := filter (fun d => negb (Nat.eqb d 1)) sh.
Fixpoint unsqueeze_index (sh : shape) (ix : index) : index :=
  match sh with
  | [] => []
  | d :: r => if Nat.eqb d 1 then 0 :: unsqueeze_index r ix
              else match ix with i :: t => i :: unsqueeze_index r t | [] => 0 :: unsqueeze_index r [] end
  end.
Definition squeeze {A} (a : arr A) : arr A :=
  (squeeze_shape (fst a), fun ix => snd a (unsqueeze_index (fst a) ix)).
(* np.atleast_2d for ndim < 2 *)
Definition atleast_2d {A} (a : arr A) : arr A :=
  match fst a with
  | [] => ([1; 1], fun _ => snd a [])
  | [n] => ([1; n], fun ix => snd a (tl ix))
  | _ => a
  end.
(* ndarray.T *)
Definition transpose {A} (a : arr A) : arr A := (rev (fst a), fun ix => snd a (rev ix)).
(* `for dslice in data`: the sub-arrays along the first axis *)
Definition slabs {A} (a : arr A) : list (arr A) :=
  match fst a with
  | [] => []
  | d :: r => map (fun k => (r, fun ix => snd a (k :: ix))) (seq 0 d)
  end.

(* _write_data(data, fileobj, out_dtype, order): the elements in the order they are written
   (each slab by dslice.tobytes(), i.e. in C order) *)
Definition write_data {A} (order_F : bool) (a : arr A) : list A :=
  let s := squeeze a in
  let s2 := if Nat.ltb (length (fst s)) 2 then atleast_2d s else if order_F then transpose s else s in
  flat_map flatten_C (slabs s2).

(* element <-> bytes *)
Definition enc_elem (be : bool) (w : nat) (e : list Z) : list Z := flat_map (enc be w) e.
Definition data_bytes (be : bool) (w : nat) (a : arr (list Z)) : list Z :=
  flat_map (enc_elem be w) (write_data true a).

Fixpoint chunks {A} (w c : nat) (b : list A) : list (list A) :=
  match c with O => [] | S c' => firstn w b :: chunks w c' (skipn w b) end.
Definition dec_elem (be : bool) (w nc : nat) (b : list Z) : list Z := map (dec be) (chunks w nc b).

(* array_from_file(shape, dtype, infile, offset, order='F'): None = short read (OSError) *)
Definition read_data (sh : shape) (be : bool) (w nc : nat) (offset : nat) (file : list Z)
  : option (arr (list Z)) :=
  let esz := (w * nc)%nat in
  let n := size sh in
  if Nat.ltb (length file) (offset + n * esz) then None
  else
    let body := firstn (n * esz) (skipn offset file) in
    let elems := map (dec_elem be w nc) (chunks esz n body) in
    Some (of_F_list (repeat 0%Z nc) sh elems).

(* ---- file layouts *)
(* single-file NIfTI: header block, extender / extensions, zero fill up to vox_offset, data *)
Definition write_single (hdr ext : list Z) (vox : nat) (data : list Z) : list Z :=
  hdr ++ ext ++ repeat 0%Z (vox - length hdr - length ext) ++ data.
(* data file of a pair (Analyze, SPM, NIfTI pair): zero fill up to the header's offset, data *)
Definition write_pair_img (offset : nat) (data : list Z) : list Z := repeat 0%Z offset ++ data.
(* MGH: 90-byte header at 0, data at 284, 20-byte footer right after the data *)
Definition mgh_data_offset : nat := 284.
Definition write_mgh (hdr : list Z) (data footer : list Z) : list Z :=
  hdr ++ repeat 0%Z (mgh_data_offset - length hdr) ++ data ++ footer.

(* MGHImage.__init__ pads shapes to 3-D; more than 4-D is refused by set_data_shape; a 4-D shape
   with a last axis of 1 is refused at write time (header shape is 3-D) *)
Definition mgh_shape (sh : shape) : option shape :=
  let n := length sh in
  if Nat.ltb 4 n then None
  else if Nat.ltb n 3 then Some (sh ++ repeat 1 (3 - n))
  else if Nat.eqb n 4 && Nat.eqb (nth 3 sh 0) 1 then None
  else Some sh.
Definition reshape_F {A} (sh' : shape) (a : arr A) : arr A :=     (* same F-order content *)
  (sh', fun ix => nth (lin_F sh' ix) (flatten_F a) (snd a [])).

(* whole-image writers / readers.  hdr, ext, footer are opaque byte blocks (C10 / C11) *)
Inductive layout := LSingle (hdr ext : list Z) (vox : nat) | LPair (offset : nat) | LMgh (hdr footer : list Z).
Definition layout_offset (l : layout) : nat :=
  match l with LSingle _ _ vox => vox | LPair off => off | LMgh _ _ => mgh_data_offset end.
Definition layout_ok (l : layout) : bool :=
  match l with
  | LSingle hdr ext vox => Nat.leb (length hdr + length ext) vox
  | LPair _ => true
  | LMgh hdr _ => Nat.leb (length hdr) mgh_data_offset
  end.
Definition write_image (l : layout) (be : bool) (w : nat) (a : arr (list Z)) : list Z :=
  match l with
  | LSingle hdr ext vox => write_single hdr ext vox (data_bytes be w a)
  | LPair off => write_pair_img off (data_bytes be w a)
  | LMgh hdr footer => write_mgh hdr (data_bytes be w a) footer
  end.
Definition read_image (l : layout) (sh : shape) (be : bool) (w nc : nat) (file : list Z) : option (arr (list Z)) :=
  read_data sh be w nc (layout_offset l) file.

(* ---- routes.  The (de)compressors are external code: parameters here, Section hypotheses in
   the theorems.  Only the file-name route with a compression suffix goes through them. *)
Inductive route := RFilename (compressed : bool) | RFileMap | RBytes | RStream.
Definition save_via (compress : list Z -> list Z) (r : route) (file : list Z) : list Z :=
  match r with RFilename true => compress file | _ => file end.
Definition load_via (decompress : list Z -> list Z) (r : route) (stored : list Z) : list Z :=
  match r with RFilename true => decompress stored | _ => stored end.

(* ------------------------------------------------------------------ the "no scaling" decision
   arraywriters.py: ArrayWriter.scaling_needed, SlopeArrayWriter.scaling_needed (inherited by
   SlopeInterArrayWriter), make_array_writer's class choice, calc_scale's reset values, and the
   branch array_to_file takes for slope 1 / intercept 0.  np.can_cast comes from the regenerated
   table (C01/Tables.v); integer ranges are computed from kind and width. *)
Inductive dkind := DBool | DInt | DUInt | DFloat | DComplex | DVoid.
Record ndt := mkDt { dt_id : Z; dt_kind : dkind; dt_w : nat }.      (* dt_id identifies the dtype *)

Definition int_min (t : ndt) : Z :=
  match dt_kind t with DInt => (- 2 ^ (8 * Z.of_nat (dt_w t) - 1))%Z | _ => 0%Z end.
Definition int_max (t : ndt) : Z :=
  match dt_kind t with
  | DInt => (2 ^ (8 * Z.of_nat (dt_w t) - 1) - 1)%Z
  | DUInt => (2 ^ (8 * Z.of_nat (dt_w t)) - 1)%Z
  | DBool => 1%Z
  | _ => 0%Z
  end.
Definition is_intlike (t : ndt) : bool := match dt_kind t with DBool | DInt | DUInt => true | _ => false end.

(* what scaling_needed looks at in the data: size, finite_range() and its two special values *)
Record dinfo := mkInfo { size0 : bool; allzero : bool; nofinite : bool; hasinf : bool; imn : Z; imx : Z }.

Inductive decision := NoScale | Scale | ErrWriter.
Inductive wclass := WPlain | WSlope | WSlopeInter.

Fixpoint mem_pair (a b : Z) (l : list (Z * Z)) : bool :=
  match l with [] => false | (x, y) :: r => (Z.eqb x a && Z.eqb y b) || mem_pair a b r end.

(* ArrayWriter.scaling_needed *)
Definition base_scaling_needed (cc : list (Z * Z)) (m d : ndt) (i : dinfo) : decision :=
  match dt_kind m, dt_kind d with
  | DVoid, _ | _, DVoid => if Z.eqb (dt_id m) (dt_id d) then NoScale else ErrWriter
  | _, _ =>
    if mem_pair (dt_id m) (dt_id d) cc then NoScale                     (* np.can_cast *)
    else match dt_kind d with
    | DComplex => NoScale
    | _ =>
      match dt_kind m with
      | DComplex => ErrWriter
      | _ =>
        match dt_kind d with
        | DFloat => NoScale
        | _ =>
          if size0 i then NoScale
          else if allzero i then
            (* finite data all zero: infinities still need the thresholds only the scaling writers apply *)
            match dt_kind m with DFloat => if hasinf i then Scale else NoScale | _ => NoScale end
          else match dt_kind m with
               | DFloat => Scale
               | _ => if (int_min d <=? imn i)%Z && (imx i <=? int_max d)%Z then NoScale else Scale
               end
        end
      end
    end
  end.
(* SlopeArrayWriter.scaling_needed: data without any finite value, or whose finite values are all zero, are not rescaled *)
Definition scaling_needed (cc : list (Z * Z)) (c : wclass) (m d : ndt) (i : dinfo) : decision :=
  match c with
  | WPlain => base_scaling_needed cc m d i
  | _ => match base_scaling_needed cc m d i with
         | Scale => if nofinite i || allzero i then NoScale else Scale
         | r => r
         end
  end.

(* make_array_writer(data, out_type, has_slope, has_intercept) *)
Definition make_array_writer (has_slope has_inter : bool) : option wclass :=
  if has_inter && negb has_slope then None
  else Some (if has_inter then WSlopeInter else if has_slope then WSlope else WPlain).

(* reset() + calc_scale(): (slope, intercept) when no scaling is needed; the scaled case is C02's *)
Definition writer_params (cc : list (Z * Z)) (c : wclass) (m d : ndt) (i : dinfo) : option (Z * Z) :=
  match scaling_needed cc c m d i with NoScale => Some (1, 0)%Z | _ => None end.

(* the branch of array_to_file for divslope = 1, intercept = 0, no thresholds *)
Inductive wroute := RDirect | RFloatOut | RClipCast | RScalePipeline.
Definition write_route (cc : list (Z * Z)) (m d : ndt) : wroute :=
  match dt_kind m with
  | DVoid => RDirect
  | _ =>
    if mem_pair (dt_id m) (dt_id d) cc then RDirect
    else match dt_kind d with
         | DFloat | DComplex => RFloatOut
         | _ => if is_intlike m then RClipCast else RScalePipeline
         end
  end.
(* RClipCast: np.clip(slab, max(mn_in, mn_out), min(mx_in, mx_out)).astype(out) *)
Definition clip_cast (m d : ndt) (v : Z) : Z :=
  Z.min (Z.max v (Z.max (int_min m) (int_min d))) (Z.min (int_max m) (int_max d)).
