(* C01/Extract.v — extraction of the executable model (ExtrOcamlBasic only; Z, nat stay inductive) *)
Require Extraction. Require ExtrOcamlBasic.
From NV Require Import Base.Bytes C01.Model C01.Tables.
Extraction Language OCaml.
Extraction "c01_model.ml" of_C_list flatten_C flatten_F data_bytes write_image read_image read_data mgh_shape
  layout_ok size scaling_needed make_array_writer writer_params write_route can_cast_table dtypes.
