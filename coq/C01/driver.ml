(* C01 driver body (after `open C01_model` and drvlib.ml).  <shape> and <words> are [a,b,..] lists;
   <words> = the array's elements in C (nested-list) order, nc words per element, as unsigned ints.
   wdata <be> <w> <nc> <shape> <words>                          -> ok <hex>    data region (F-order slabs)
   single <be> <w> <nc> <shape> <words> <hdrhex> <exthex> <vox> -> ok <hex>    whole .nii file | err layout
   pair <be> <w> <nc> <shape> <words> <offset>                  -> ok <hex>    whole data file
   mgh <be> <w> <nc> <shape> <words> <hdrhex> <footerhex>       -> ok <hex>    whole .mgh file
   read <be> <w> <nc> <shape> <offset> <filehex>                -> ok <words in C order> | err short
   mghshape <shape>                                             -> ok <shape> | err refuse
   decide <has_slope> <has_inter> <mid> <did> <size0> <allzero> <nofinite> <hasinf> <mn> <mx>
        -> ok <class> <noscale|scale|err_writer> <route> [<slope> <inter>] | err no_writer   (ids of Tables.dtypes) *)
let natlist_of_string s = List.map (fun z -> nat_of_int (int_of_z z)) (zlist_of_string s)
let string_of_natlist l = "[" ^ String.concat "," (List.map (fun n -> string_of_int (int_of_nat n)) l) ^ "]"
let rec group n l = if l = [] then [] else take_n n l :: group n (drop_n n l)
let arr_of be_ w nc shape words =
  let nc = int_of_string nc in
  let sh = natlist_of_string shape in
  of_C_list (List.init nc (fun _ -> z_of_int 0)) sh (group nc (zlist_of_string words))
let handle op args = match op, args with
  | "wdata", [be; w; nc; sh; ws] ->
    "ok " ^ hex_of_bytes (data_bytes (bool_of_string be) (nat_of_int (int_of_string w)) (arr_of be w nc sh ws))
  | "single", [be; w; nc; sh; ws; h; e; vox] ->
    let l = LSingle (bytes_of_hex h, bytes_of_hex e, nat_of_int (int_of_string vox)) in
    if layout_ok l then
      "ok " ^ hex_of_bytes (write_image l (bool_of_string be) (nat_of_int (int_of_string w)) (arr_of be w nc sh ws))
    else "err layout"
  | "pair", [be; w; nc; sh; ws; off] ->
    "ok " ^ hex_of_bytes (write_image (LPair (nat_of_int (int_of_string off))) (bool_of_string be)
                            (nat_of_int (int_of_string w)) (arr_of be w nc sh ws))
  | "mgh", [be; w; nc; sh; ws; h; f] ->
    "ok " ^ hex_of_bytes (write_image (LMgh (bytes_of_hex h, bytes_of_hex f)) (bool_of_string be)
                            (nat_of_int (int_of_string w)) (arr_of be w nc sh ws))
  | "read", [be; w; nc; sh; off; f] ->
    (match read_data (natlist_of_string sh) (bool_of_string be) (nat_of_int (int_of_string w))
             (nat_of_int (int_of_string nc)) (nat_of_int (int_of_string off)) (bytes_of_hex f) with
     | Some a -> "ok " ^ string_of_zlist (List.concat (flatten_C a))
     | None -> "err short")
  | "mghshape", [sh] ->
    (match mgh_shape (natlist_of_string sh) with
     | Some s -> "ok " ^ string_of_natlist s
     | None -> "err refuse")
  | "decide", [hs; hi; mi; di; s0; az; nf; hf; mn; mx] ->
    let find i = List.find (fun t -> int_of_z t.dt_id = int_of_string i) dtypes in
    let m = find mi and d = find di in
    let info = { size0 = bool_of_string s0; allzero = bool_of_string az; nofinite = bool_of_string nf; hasinf = bool_of_string hf;
                 imn = z_of_string mn; imx = z_of_string mx } in
    (match make_array_writer (bool_of_string hs) (bool_of_string hi) with
     | None -> "err no_writer"
     | Some c ->
       let cn = (match c with WPlain -> "ArrayWriter" | WSlope -> "SlopeArrayWriter" | WSlopeInter -> "SlopeInterArrayWriter") in
       let r = (match write_route can_cast_table m d with
                | RDirect -> "direct" | RFloatOut -> "floatout" | RClipCast -> "clipcast" | RScalePipeline -> "scalepipe") in
       (match scaling_needed can_cast_table c m d info with
        | NoScale -> (match writer_params can_cast_table c m d info with
                      | Some (s, i) -> "ok " ^ cn ^ " noscale " ^ r ^ " " ^ string_of_z s ^ " " ^ string_of_z i
                      | None -> "err driver:params")
        | Scale -> "ok " ^ cn ^ " scale " ^ r
        | ErrWriter -> "ok " ^ cn ^ " err_writer " ^ r))
  | _ -> "err driver:badop"
let () = run_lines handle
