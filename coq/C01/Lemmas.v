(* C01/Lemmas.v — proofs about C01/Model.v *)
From Coq Require Import ZArith List Bool Arith Lia.
From NV Require Import Base.Bytes C01.Model.
Import ListNotations.
Open Scope nat_scope.

(* ------------------------------------------------------------------ list helpers *)
Lemma flat_map_map {A B C} (f : A -> B) (g : B -> list C) l : flat_map g (map f l) = flat_map (fun x => g (f x)) l.
Proof. induction l; simpl; [reflexivity|now f_equal]. Qed.
Lemma map_flat_map {A B C} (f : B -> C) (g : A -> list B) l : map f (flat_map g l) = flat_map (fun x => map f (g x)) l.
Proof. induction l; simpl; [reflexivity|]. now rewrite map_app, IHl. Qed.
Lemma flat_map_flat_map {A B C} (f : A -> list B) (g : B -> list C) l :
  flat_map g (flat_map f l) = flat_map (fun x => flat_map g (f x)) l.
Proof. induction l; simpl; [reflexivity|]. now rewrite flat_map_app, IHl. Qed.
Lemma flat_map_singleton {A B} (f : A -> B) l : flat_map (fun x => [f x]) l = map f l.
Proof. induction l; simpl; [reflexivity|now f_equal]. Qed.
Lemma flat_map_ext' {A B} (f g : A -> list B) l : (forall x, f x = g x) -> flat_map f l = flat_map g l.
Proof. intros H. induction l; simpl; [reflexivity|]. now rewrite H, IHl. Qed.

(* ------------------------------------------------------------------ enumerations *)
Lemma enum_C_length sh : length (enum_C sh) = size sh.
Proof.
  induction sh as [|d r IH]; [reflexivity|]. cbn [enum_C size fold_right]. fold (size r).
  assert (G : forall l, length (flat_map (fun i : nat => map (cons i) (enum_C r)) l) = length l * size r).
  { induction l as [|x l IHl]; [reflexivity|]. cbn [flat_map length]. rewrite app_length, map_length, IH, IHl. reflexivity. }
  rewrite G, seq_length. reflexivity.
Qed.

Lemma enum_F_length sh : length (enum_F sh) = size sh.
Proof.
  induction sh as [|d r IH]; [reflexivity|]. cbn [enum_F size fold_right]. fold (size r).
  assert (G : forall l : list index, length (flat_map (fun t => map (fun i => i :: t) (seq 0 d)) l) = d * length l).
  { induction l as [|x l IHl]; [cbn; lia|]. cbn [flat_map length]. rewrite app_length, map_length, seq_length, IHl. lia. }
  rewrite G, IH. reflexivity.
Qed.

Lemma enum_C_snoc l d :
  enum_C (l ++ [d]) = flat_map (fun p => map (fun i => p ++ [i]) (seq 0 d)) (enum_C l).
Proof.
  induction l as [|a l IH].
  - cbn [app enum_C flat_map]. rewrite app_nil_r.
    rewrite (flat_map_ext' _ (fun i => [[i]])) by reflexivity. now rewrite flat_map_singleton.
  - cbn [app enum_C]. rewrite IH. rewrite flat_map_flat_map. apply flat_map_ext'. intros i.
    rewrite map_flat_map, flat_map_map. apply flat_map_ext'. intros p. now rewrite map_map.
Qed.

(* F order of a shape = C order of the reversed shape with reversed indices *)
Lemma enum_F_rev sh : enum_F sh = map (@rev nat) (enum_C (rev sh)).
Proof.
  induction sh as [|d r IH]; [reflexivity|]. cbn [enum_F rev]. rewrite enum_C_snoc, IH.
  rewrite map_flat_map, flat_map_map. apply flat_map_ext'. intros p. rewrite map_map.
  apply map_ext. intros i. now rewrite rev_unit.
Qed.

(* ------------------------------------------------------------------ the slab loop *)
Lemma slabs_flatten_C {A} (a : arr A) : fst a <> [] -> flat_map flatten_C (slabs a) = flatten_C a.
Proof.
  destruct a as [sh f]. cbn [fst]. destruct sh as [|d r]; [congruence|]. intros _.
  unfold slabs, flatten_C. cbn [fst snd enum_C]. rewrite flat_map_map, map_flat_map.
  apply flat_map_ext'. intros k. now rewrite map_map.
Qed.

Lemma enum_rank1 n : enum_C [n] = enum_F [n].
Proof.
  cbn [enum_C enum_F flat_map]. rewrite app_nil_r.
  rewrite (flat_map_ext' _ (fun i => [[i]])) by reflexivity. now rewrite flat_map_singleton.
Qed.

Lemma write_data_squeezed {A} (a : arr A) : write_data true a = flatten_F (squeeze a).
Proof.
  unfold write_data. set (s := squeeze a). destruct s as [ssh g] eqn:Es. cbn [fst].
  destruct ssh as [|n [|m r]].
  - (* 0-d after squeezing: atleast_2d gives (1,1) *)
    reflexivity.
  - (* 1-d: one row *)
    cbn [length Nat.ltb Nat.leb atleast_2d fst snd slabs seq map flat_map]. rewrite app_nil_r.
    unfold flatten_C, flatten_F. cbn [fst snd tl]. now rewrite enum_rank1.
  - (* rank >= 2: transpose, loop over the first axis of the transpose *)
    change (length (n :: m :: r) <? 2) with false. cbv iota.
    rewrite slabs_flatten_C.
    + unfold transpose, flatten_C, flatten_F. cbn [fst snd]. rewrite enum_F_rev, map_map. reflexivity.
    + unfold transpose. cbn [fst]. intros E. apply (f_equal (@length nat)) in E.
      rewrite rev_length in E. discriminate.
Qed.

Lemma enum_F_squeeze sh : enum_F sh = map (unsqueeze_index sh) (enum_F (squeeze_shape sh)).
Proof.
  induction sh as [|d r IH]; [reflexivity|]. cbn [squeeze_shape filter]. fold (squeeze_shape r).
  destruct (Nat.eqb_spec d 1) as [->|Hd]; cbn [negb].
  - cbn [enum_F seq map]. rewrite flat_map_singleton. rewrite IH at 1. rewrite map_map. apply map_ext. intros ix.
    reflexivity.
  - cbn [enum_F]. rewrite map_flat_map. rewrite IH at 1. rewrite flat_map_map.
    apply flat_map_ext'. intros t. rewrite map_map. apply map_ext. intros i.
    cbn [unsqueeze_index]. destruct (Nat.eqb_spec d 1); [contradiction|reflexivity].
Qed.

Lemma flatten_F_squeeze {A} (a : arr A) : flatten_F (squeeze a) = flatten_F a.
Proof.
  destruct a as [sh f]. unfold flatten_F, squeeze. cbn [fst snd].
  rewrite (enum_F_squeeze sh), map_map. reflexivity.
Qed.

(* the concatenation of the slabs written by the loop is the F-order flattening, any rank *)
Lemma slab_write_is_F_order {A} (a : arr A) : write_data true a = flatten_F a.
Proof. now rewrite write_data_squeezed, flatten_F_squeeze. Qed.

(* and with order='C' the C-order flattening (not used by the image classes) *)

(* ------------------------------------------------------------------ linear indices *)
Lemma nth_flat_map_const {A B} (g : A -> list B) d (l : list A) i j dx dy :
  (forall x, length (g x) = d) -> i < d -> j < length l ->
  nth (i + d * j) (flat_map g l) dy = nth i (g (nth j l dx)) dy.
Proof.
  intros Hg Hi. revert j. induction l as [|x l IH]; intros j Hj; [simpl in Hj; lia|].
  cbn [flat_map]. destruct j as [|j].
  - rewrite Nat.mul_0_r, Nat.add_0_r. rewrite app_nth1 by (rewrite Hg; exact Hi). reflexivity.
  - rewrite app_nth2 by (rewrite Hg; lia). rewrite Hg.
    replace (i + d * S j - d) with (i + d * j) by lia. cbn [nth]. apply IH. simpl in Hj. lia.
Qed.

Lemma in_enum_F_cons d r ix : In ix (enum_F (d :: r)) <-> exists i t, ix = i :: t /\ i < d /\ In t (enum_F r).
Proof.
  cbn [enum_F]. rewrite in_flat_map. split.
  - intros (t & Ht & Hin). apply in_map_iff in Hin as (i & <- & Hi). apply in_seq in Hi.
    exists i, t. repeat split; [lia|assumption].
  - intros (i & t & -> & Hi & Ht). exists t. split; [assumption|]. apply in_map_iff. exists i.
    split; [reflexivity|]. apply in_seq. lia.
Qed.

Lemma lin_F_bound sh : forall ix, In ix (enum_F sh) -> lin_F sh ix < size sh.
Proof.
  induction sh as [|d r IH]; intros ix H.
  - cbn in *. lia.
  - apply in_enum_F_cons in H as (i & t & -> & Hi & Ht). specialize (IH t Ht).
    cbn [lin_F size fold_right]. fold (size r). nia.
Qed.

Lemma nth_lin_F_enum sh : forall ix, In ix (enum_F sh) -> nth (lin_F sh ix) (enum_F sh) [] = ix.
Proof.
  induction sh as [|d r IH]; intros ix H.
  - cbn in H. destruct H as [<-|[]]. reflexivity.
  - apply in_enum_F_cons in H as (i & t & -> & Hi & Ht).
    cbn [lin_F enum_F].
    rewrite (nth_flat_map_const (fun t0 => map (fun i0 => i0 :: t0) (seq 0 d)) d (enum_F r) i (lin_F r t) [] []).
    + rewrite IH by assumption.
      rewrite (nth_indep _ [] (0 :: t)) by (rewrite map_length, seq_length; exact Hi).
      rewrite (map_nth (fun i0 => i0 :: t)). now rewrite seq_nth.
    + intros x. now rewrite map_length, seq_length.
    + exact Hi.
    + rewrite enum_F_length. now apply lin_F_bound.
Qed.

(* position k of the F enumeration has linear index k *)
Lemma lin_F_nth_enum sh : forall k, k < size sh -> lin_F sh (nth k (enum_F sh) []) = k.
Proof.
  induction sh as [|d r IH]; intros k Hk.
  - cbn in *. destruct k; [reflexivity|lia].
  - cbn [size fold_right] in Hk. fold (size r) in Hk.
    assert (Hd : 0 < d) by (destruct d; [simpl in Hk; lia|lia]).
    set (i := k mod d). set (j := k / d).
    assert (Ek : k = i + d * j) by (unfold i, j; rewrite (Nat.div_mod k d) at 1 by lia; lia).
    assert (Hi : i < d) by (unfold i; apply Nat.mod_upper_bound; lia).
    assert (Hj : j < size r) by (unfold j; apply Nat.div_lt_upper_bound; lia).
    rewrite Ek at 1. cbn [enum_F].
    rewrite (nth_flat_map_const (fun t0 => map (fun i0 => i0 :: t0) (seq 0 d)) d (enum_F r) i j [] [])
      by (try (intros x; now rewrite map_length, seq_length); try assumption; rewrite enum_F_length; assumption).
    rewrite (nth_indep _ [] (0 :: nth j (enum_F r) [])) by (rewrite map_length, seq_length; exact Hi).
    rewrite (map_nth (fun i0 => i0 :: nth j (enum_F r) [])). rewrite seq_nth by assumption.
    cbn [lin_F]. rewrite IH by assumption. lia.
Qed.

Lemma flatten_of_F_list {A} (d : A) sh l : length l = size sh -> flatten_F (of_F_list d sh l) = l.
Proof.
  intros Hl. unfold flatten_F, of_F_list. cbn [fst snd].
  apply nth_ext with (d := d) (d' := d); [now rewrite map_length, enum_F_length|].
  intros k Hk. rewrite map_length, enum_F_length in Hk.
  rewrite (nth_indep _ d (nth (lin_F sh []) l d)) by (rewrite map_length, enum_F_length; exact Hk).
  rewrite (map_nth (fun ix => nth (lin_F sh ix) l d) (enum_F sh) []).
  now rewrite lin_F_nth_enum.
Qed.

Lemma of_F_list_get {A} (d : A) sh (f : index -> A) ix : In ix (enum_F sh) ->
  snd (of_F_list d sh (map f (enum_F sh))) ix = f ix.
Proof.
  intros H. unfold of_F_list. cbn [snd].
  rewrite (nth_indep _ d (f [])) by (rewrite map_length, enum_F_length; now apply lin_F_bound).
  rewrite (map_nth f). now rewrite nth_lin_F_enum.
Qed.

(* ------------------------------------------------------------------ element codecs *)
Lemma chunks_concat {A} w (ps : list (list A)) rest :
  Forall (fun p => length p = w) ps -> chunks w (length ps) (concat ps ++ rest) = ps.
Proof.
  induction ps as [|p ps IH]; intros H; simpl; [reflexivity|].
  inversion H as [|? ? Hp Hps]; subst. rewrite <- app_assoc.
  rewrite firstn_app, Nat.sub_diag, firstn_all. simpl. rewrite app_nil_r.
  rewrite skipn_app, Nat.sub_diag, skipn_all. simpl. now rewrite IH.
Qed.

Lemma flat_map_concat_map {A B} (f : A -> list B) l : flat_map f l = concat (map f l).
Proof. induction l; simpl; [reflexivity|now f_equal]. Qed.

Definition word_ok (w : nat) (v : Z) : Prop := (0 <= v < pow256 w)%Z.
Definition elem_ok (w nc : nat) (e : list Z) : Prop := length e = nc /\ Forall (word_ok w) e.
(* every element of the array (at the indices of its shape) is nc words of w bytes *)
Definition arr_ok (w nc : nat) (a : arr (list Z)) : Prop := Forall (elem_ok w nc) (flatten_F a).

Lemma enc_elem_length be w e : length (enc_elem be w e) = w * length e.
Proof.
  unfold enc_elem. induction e as [|v e IH]; simpl; [lia|]. rewrite app_length, enc_length, IH. lia.
Qed.

Lemma dec_enc_elem be w nc e : elem_ok w nc e -> dec_elem be w nc (enc_elem be w e) = e.
Proof.
  intros [Hl Hr]. unfold dec_elem, enc_elem. rewrite flat_map_concat_map.
  rewrite <- (app_nil_r (concat _)). rewrite <- Hl. rewrite <- (map_length (enc be w) e).
  rewrite chunks_concat.
  - rewrite map_map. clear Hl. induction Hr as [|v e Hv He IH]; simpl; [reflexivity|].
    rewrite dec_enc by exact Hv. f_equal. exact IH.
  - clear. induction e; simpl; constructor; [apply enc_length|assumption].
Qed.

Lemma data_bytes_length be w nc a : arr_ok w nc a -> length (data_bytes be w a) = size (fst a) * (w * nc).
Proof.
  intros H. unfold data_bytes. rewrite slab_write_is_F_order.
  rewrite <- (enum_F_length (fst a)). unfold arr_ok, flatten_F in *. rewrite <- (map_length (snd a)).
  induction H as [|e es [He _] Hes IH]; simpl; [reflexivity|].
  rewrite app_length, enc_elem_length, He, IH. lia.
Qed.

(* array_from_file on a file holding the written data region at `offset` gives back the array *)
Lemma read_write_data be w nc a pre post : arr_ok w nc a ->
  read_data (fst a) be w nc (length pre) (pre ++ data_bytes be w a ++ post)
  = Some (of_F_list (repeat 0%Z nc) (fst a) (flatten_F a)).
Proof.
  intros Hok. pose proof (data_bytes_length be w nc a Hok) as HL.
  unfold read_data. rewrite !app_length, HL.
  replace (length pre + (size (fst a) * (w * nc) + length post) <? length pre + size (fst a) * (w * nc)) with false
    by (symmetry; apply Nat.ltb_ge; lia).
  f_equal. f_equal.
  rewrite skipn_app, Nat.sub_diag, skipn_all. cbn [skipn app].
  rewrite firstn_app, <- HL, Nat.sub_diag, firstn_all. cbn [firstn]. rewrite app_nil_r.
  unfold data_bytes. rewrite slab_write_is_F_order. rewrite flat_map_concat_map.
  unfold arr_ok in Hok. set (els := flatten_F a) in *.
  assert (Hn : size (fst a) = length (map (enc_elem be w) els))
    by (rewrite map_length; unfold els, flatten_F; now rewrite map_length, enum_F_length).
  rewrite Hn. rewrite <- (app_nil_r (concat _)). rewrite chunks_concat.
  - rewrite map_map. clear Hn HL. induction Hok as [|e es He Hes IH]; simpl; [reflexivity|].
    rewrite (dec_enc_elem be w nc e He). now rewrite IH.
  - clear Hn HL. induction Hok as [|e es [He _] Hes IH]; simpl; constructor; [|assumption].
    rewrite enc_elem_length, He. reflexivity.
Qed.

Lemma reloaded_equal nc (a : arr (list Z)) :
  let a' := of_F_list (repeat 0%Z nc) (fst a) (flatten_F a) in
  fst a' = fst a /\ flatten_F a' = flatten_F a
  /\ (forall ix, In ix (enum_F (fst a)) -> snd a' ix = snd a ix).
Proof.
  cbv zeta. split; [reflexivity|]. split.
  - apply flatten_of_F_list. unfold flatten_F. now rewrite map_length, enum_F_length.
  - intros ix H. unfold flatten_F. now apply of_F_list_get.
Qed.

(* ------------------------------------------------------------------ file layouts *)
Definition layout_pre (l : layout) : list Z :=
  match l with
  | LSingle hdr ext vox => hdr ++ ext ++ repeat 0%Z (vox - length hdr - length ext)
  | LPair off => repeat 0%Z off
  | LMgh hdr _ => hdr ++ repeat 0%Z (mgh_data_offset - length hdr)
  end.
Definition layout_post (l : layout) : list Z :=
  match l with LMgh _ footer => footer | _ => [] end.

Lemma write_image_split l be w a :
  write_image l be w a = layout_pre l ++ data_bytes be w a ++ layout_post l.
Proof.
  destruct l; cbn [write_image layout_pre layout_post]; unfold write_single, write_pair_img, write_mgh;
    rewrite <- ?app_assoc, ?app_nil_r; reflexivity.
Qed.

Lemma layout_pre_length l : layout_ok l = true -> length (layout_pre l) = layout_offset l.
Proof.
  destruct l; cbn [layout_ok layout_pre layout_offset]; intros H;
    rewrite ?app_length, ?repeat_length; try apply Nat.leb_le in H; lia.
Qed.

Lemma image_roundtrip l be w nc a : layout_ok l = true -> arr_ok w nc a ->
  read_image l (fst a) be w nc (write_image l be w a)
  = Some (of_F_list (repeat 0%Z nc) (fst a) (flatten_F a)).
Proof.
  intros Hl Hok. unfold read_image. rewrite write_image_split, <- (layout_pre_length l Hl).
  now apply read_write_data.
Qed.

(* the bytes at [offset, offset + n * itemsize) are the element encodings in F order *)
Lemma image_raw_bytes l be w nc a : layout_ok l = true -> arr_ok w nc a ->
  firstn (size (fst a) * (w * nc)) (skipn (layout_offset l) (write_image l be w a))
  = flat_map (enc_elem be w) (flatten_F a).
Proof.
  intros Hl Hok. rewrite write_image_split, <- (layout_pre_length l Hl).
  rewrite skipn_app, Nat.sub_diag, skipn_all. cbn [skipn app].
  rewrite <- (data_bytes_length be w nc a Hok).
  rewrite firstn_app, Nat.sub_diag, firstn_all. cbn [firstn]. rewrite app_nil_r.
  unfold data_bytes. now rewrite slab_write_is_F_order.
Qed.

(* ------------------------------------------------------------------ routes *)
Section Codec.
  (* the compressor library chosen by Opener from the file suffix *)
  Variables compress decompress : list Z -> list Z.
  Hypothesis decompress_compress : forall b, decompress (compress b) = b.

  Lemma route_roundtrip (r : route) l be w nc a : layout_ok l = true -> arr_ok w nc a ->
    read_image l (fst a) be w nc (load_via decompress r (save_via compress r (write_image l be w a)))
    = Some (of_F_list (repeat 0%Z nc) (fst a) (flatten_F a)).
  Proof.
    intros Hl Hok. assert (E : load_via decompress r (save_via compress r (write_image l be w a)) = write_image l be w a).
    { destruct r as [[|]| | |]; cbn [load_via save_via]; [apply decompress_compress|reflexivity..]. }
    rewrite E. now apply image_roundtrip.
  Qed.

  Lemma route_independent (r r' : route) l be w nc a : layout_ok l = true -> arr_ok w nc a ->
    read_image l (fst a) be w nc (load_via decompress r (save_via compress r (write_image l be w a)))
    = read_image l (fst a) be w nc (load_via decompress r' (save_via compress r' (write_image l be w a))).
  Proof. intros Hl Hok. now rewrite !route_roundtrip. Qed.
End Codec.

(* ------------------------------------------------------------------ MGH shape handling *)
Lemma size_app a b : size (a ++ b) = size a * size b.
Proof. induction a as [|x a IH]; simpl; [lia|]. fold (size (a ++ b)). fold (size a). rewrite IH. lia. Qed.
Lemma size_repeat1 n : size (repeat 1 n) = 1.
Proof. induction n; simpl; [reflexivity|]. fold (size (repeat 1 n)). lia. Qed.

(* padding to 3-D keeps the number of elements, and the padded image stores the same bytes *)
Lemma mgh_shape_spec sh sh' : mgh_shape sh = Some sh' ->
  size sh' = size sh /\ 3 <= length sh' <= 4 /\ (3 <= length sh -> sh' = sh)
  /\ (length sh < 3 -> sh' = sh ++ repeat 1 (3 - length sh)).
Proof.
  unfold mgh_shape. destruct (Nat.ltb_spec 4 (length sh)); [discriminate|].
  destruct (Nat.ltb_spec (length sh) 3).
  - intros E. assert (E' : sh' = sh ++ repeat 1 (3 - length sh)) by congruence. clear E. subst sh'.
    rewrite size_app, size_repeat1, app_length, repeat_length.
    repeat split; intros; try lia; try reflexivity.
  - destruct (_ && _); [discriminate|]. intros E. inversion E; subst. repeat split; intros; try lia; try reflexivity.
Qed.

Lemma reshape_same_bytes {A} sh' (a : arr A) : size sh' = size (fst a) ->
  flatten_F (reshape_F sh' a) = flatten_F a.
Proof.
  intros H. unfold reshape_F. apply (flatten_of_F_list (snd a []) sh' (flatten_F a)).
  unfold flatten_F. now rewrite map_length, enum_F_length.
Qed.

(* ------------------------------------------------------------------ the "no scaling" decision *)
From NV Require Import C01.Tables.
Open Scope Z_scope.

(* table fact (re-proved over the regenerated matrix): a safe cast between integer-like dtypes
   never narrows the range *)
Definition cast_sound_pair (m d : ndt) : bool :=
  negb (is_intlike m && is_intlike d && mem_pair (dt_id m) (dt_id d) can_cast_table)
  || ((int_min d <=? int_min m) && (int_max m <=? int_max d)).
Lemma can_cast_int_sound :
  forallb (fun m => forallb (cast_sound_pair m) dtypes) dtypes = true.
Proof. vm_compute. reflexivity. Qed.

Lemma intlike_has_zero : forallb (fun d => negb (is_intlike d) || ((int_min d <=? 0) && (0 <=? int_max d))) dtypes = true.
Proof. vm_compute. reflexivity. Qed.

(* finite_range() is consistent with the two flags derived from it *)
Definition info_ok (m : ndt) (i : dinfo) : Prop :=
  (allzero i = true -> imn i = 0 /\ imx i = 0)
  /\ (is_intlike m = true -> size0 i = false -> int_min m <= imn i /\ imn i <= imx i /\ imx i <= int_max m).

Lemma no_scaling_params c m d i : scaling_needed can_cast_table c m d i = NoScale ->
  writer_params can_cast_table c m d i = Some (1, 0).
Proof. intros H. unfold writer_params. now rewrite H. Qed.

Lemma scaling_base c m d i : scaling_needed can_cast_table c m d i = NoScale ->
  base_scaling_needed can_cast_table m d i = NoScale
  \/ (c <> WPlain /\ (nofinite i = true \/ allzero i = true) /\ base_scaling_needed can_cast_table m d i = Scale).
Proof.
  unfold scaling_needed. destruct c; [now left| |];
    (destruct (base_scaling_needed can_cast_table m d i); [now left| |discriminate];
     destruct (nofinite i) eqn:N; [right; repeat split; try discriminate; now left|];
     destruct (allzero i) eqn:A; [right; repeat split; try discriminate; now right|discriminate]).
Qed.

(* only float data whose finite values are all zero can still need scaling (infinities) *)
Lemma base_scale_allzero_float m d i : base_scaling_needed can_cast_table m d i = Scale -> allzero i = true ->
  dt_kind m = DFloat.
Proof.
  unfold base_scaling_needed. intros H A. rewrite A in H.
  destruct (dt_kind m); try reflexivity; destruct (dt_kind d); try discriminate;
    try (destruct (Z.eqb _ _); discriminate);
    destruct (mem_pair _ _ _); try discriminate; destruct (size0 i); discriminate.
Qed.

(* integer -> integer without scaling: the values fit the target, the write is a cast (the clip of
   the int->int branch of array_to_file is the identity on them) *)
Lemma no_scaling_int_fits c m d i : In m dtypes -> In d dtypes ->
  is_intlike m = true -> is_intlike d = true -> info_ok m i -> size0 i = false -> nofinite i = false ->
  scaling_needed can_cast_table c m d i = NoScale ->
  int_min d <= imn i /\ imx i <= int_max d
  /\ (forall v, imn i <= v <= imx i -> clip_cast m d v = v)
  /\ (write_route can_cast_table m d = RDirect \/ write_route can_cast_table m d = RClipCast).
Proof.
  intros Hm Hd Im Id [Hz Hr] Hs Hnf H. specialize (Hr Im Hs). destruct Hr as (R1 & R2 & R3).
  assert (Fit : int_min d <= imn i /\ imx i <= int_max d).
  { destruct (scaling_base _ _ _ _ H) as [B|(_ & [N|A] & Bs)]; [|congruence|
      pose proof (base_scale_allzero_float m d i Bs A) as K; unfold is_intlike in Im; rewrite K in Im; discriminate].
    pose proof can_cast_int_sound as S. rewrite forallb_forall in S. specialize (S m Hm).
    rewrite forallb_forall in S. specialize (S d Hd). unfold cast_sound_pair in S. rewrite Im, Id in S. cbn [andb] in S.
    pose proof intlike_has_zero as Zr. rewrite forallb_forall in Zr. specialize (Zr d Hd). rewrite Id in Zr. cbn [negb orb] in Zr.
    unfold base_scaling_needed in B. unfold is_intlike in Im, Id.
    destruct (dt_kind m) eqn:Km; try discriminate; destruct (dt_kind d) eqn:Kd; try discriminate;
      (destruct (mem_pair (dt_id m) (dt_id d) can_cast_table);
       [cbn [negb orb] in S; lia|];
       rewrite Hs in B; destruct (allzero i) eqn:Az;
       [destruct (Hz eq_refl) as [-> ->]; lia|];
       destruct ((int_min d <=? imn i) && (imx i <=? int_max d)) eqn:F; [lia|discriminate]). }
  split; [apply Fit|]. split; [apply Fit|]. split.
  - intros v Hv. unfold clip_cast. lia.
  - unfold write_route. unfold is_intlike in Im, Id.
    destruct (dt_kind m) eqn:Km; try discriminate; destruct (mem_pair _ _ _); auto;
      destruct (dt_kind d) eqn:Kd; try discriminate; unfold is_intlike; rewrite Km; auto.
Qed.

(* float -> integer is stored without scaling only for empty, all-zero or (slope writers) wholly
   non-finite data *)
Lemma no_scaling_float_to_int c m d i : dt_kind m = DFloat -> is_intlike d = true ->
  scaling_needed can_cast_table c m d i = NoScale ->
  mem_pair (dt_id m) (dt_id d) can_cast_table = true \/ size0 i = true \/ allzero i = true
  \/ (c <> WPlain /\ nofinite i = true).
Proof.
  intros Km Id H. destruct (scaling_base _ _ _ _ H) as [B|(Hc & [N|A] & _)];
    [|right; right; right; now split|right; right; now left].
  unfold base_scaling_needed in B. rewrite Km in B. unfold is_intlike in Id.
  destruct (dt_kind d); try discriminate;
    (destruct (mem_pair _ _ _); [now left|]; destruct (size0 i); [right; now left|];
     destruct (allzero i); [right; right; now left|discriminate]).
Qed.
