(* C01/Props.v — property theorems only.  Property C01: lossless voxel round-trip through every
   writable volume format.  Arrays are (shape, index -> element) with elements as lists of
   fixed-width words (bit patterns); write_data is the slab loop of volumeutils._write_data,
   read_data is array_from_file (order='F'), write_image / read_image the file layouts. *)
From Coq Require Import ZArith List Bool Arith Lia.
From NV Require Import Base.Bytes C01.Model C01.Tables C01.Lemmas.
Import ListNotations.
Open Scope nat_scope.

(* for every shape of any rank (length-1 and length-0 axes included) the concatenation of the
   slabs written by the loop (squeeze, atleast_2d / transpose, first-axis loop, C-order tobytes of
   each slab) is the F-order flattening of the array *)
Theorem C01_slab_write_is_F_order : forall (A : Type) (a : arr A), write_data true a = flatten_F a.
Proof. exact @slab_write_is_F_order. Qed.
Print Assumptions C01_slab_write_is_F_order.

(* read (write arr) = arr: every layout (NIfTI single with any header / extension block and any
   legal vox_offset; data file of a pair at any offset; MGH), both byte orders, any rank, any
   element type of nc words of w bytes: the re-loaded array has the same shape, the same F-order
   content and the same element at every index of the shape *)
Theorem C01_roundtrip : forall l be w nc a, layout_ok l = true -> arr_ok w nc a ->
  exists a', read_image l (fst a) be w nc (write_image l be w a) = Some a'
    /\ fst a' = fst a /\ flatten_F a' = flatten_F a
    /\ (forall ix, In ix (enum_F (fst a)) -> snd a' ix = snd a ix).
Proof.
  intros l be w nc a Hl Hok. eexists. split; [now apply image_roundtrip|]. apply reloaded_equal.
Qed.
Print Assumptions C01_roundtrip.

(* the bytes at [vox_offset, vox_offset + n * itemsize) of the written file are exactly the
   encodings of the elements in F order (bit patterns, hence NaN / inf kept) *)
Theorem C01_raw_bytes : forall l be w nc a, layout_ok l = true -> arr_ok w nc a ->
  firstn (size (fst a) * (w * nc)) (skipn (layout_offset l) (write_image l be w a))
  = flat_map (enc_elem be w) (flatten_F a).
Proof. exact image_raw_bytes. Qed.
Print Assumptions C01_raw_bytes.

(* the four routes (file name with or without a compression suffix, file map, stream, bytes) load
   the same array, given that the compressor library inverts itself *)
Theorem C01_route_independent : forall (compress decompress : list Z -> list Z),
  (forall b, decompress (compress b) = b) ->
  forall (r r' : route) l be w nc a, layout_ok l = true -> arr_ok w nc a ->
    read_image l (fst a) be w nc (load_via decompress r (save_via compress r (write_image l be w a)))
    = read_image l (fst a) be w nc (load_via decompress r' (save_via compress r' (write_image l be w a)))
    /\ read_image l (fst a) be w nc (load_via decompress r (save_via compress r (write_image l be w a)))
       = Some (of_F_list (repeat 0%Z nc) (fst a) (flatten_F a)).
Proof.
  intros compress decompress H r r' l be w nc a Hl Hok. split.
  - now apply (route_independent compress decompress H).
  - now apply (route_roundtrip compress decompress H).
Qed.
Print Assumptions C01_route_independent.

(* the "no scaling" decision (ArrayWriter / SlopeArrayWriter / SlopeInterArrayWriter.scaling_needed over
   the regenerated np.can_cast matrix): when it is false the writer's parameters are slope 1 and
   intercept 0; for integer-like memory and on-disk types the data range fits the target, the
   int->int clip of array_to_file is the identity on the data and the branch taken is a cast; and
   float data go to an integer type unscaled only if empty, all zero, or (slope writers) without any
   finite value *)
Theorem C01_no_scaling_decision : forall c m d i,
  scaling_needed can_cast_table c m d i = NoScale ->
  writer_params can_cast_table c m d i = Some (1, 0)%Z
  /\ (In m dtypes -> In d dtypes -> is_intlike m = true -> is_intlike d = true -> info_ok m i ->
      size0 i = false -> nofinite i = false ->
      (int_min d <= imn i)%Z /\ (imx i <= int_max d)%Z
      /\ (forall v, (imn i <= v <= imx i)%Z -> clip_cast m d v = v)
      /\ (write_route can_cast_table m d = RDirect \/ write_route can_cast_table m d = RClipCast))
  /\ (dt_kind m = DFloat -> is_intlike d = true ->
      mem_pair (dt_id m) (dt_id d) can_cast_table = true \/ size0 i = true \/ allzero i = true
      \/ (c <> WPlain /\ nofinite i = true)).
Proof.
  intros c m d i H. split; [now apply no_scaling_params|]. split.
  - intros. now apply (no_scaling_int_fits c m d i).
  - intros. now apply (no_scaling_float_to_int c m d i).
Qed.
Print Assumptions C01_no_scaling_decision.

(* MGH: shapes of rank < 3 are padded with ones to 3-D (same elements, same bytes: finding S-C01a is
   the shape change only), rank 3 and 4 kept, rank > 4 and 4-D with a last axis of 1 refused *)
Theorem C01_mgh_shape : forall sh,
  (forall sh', mgh_shape sh = Some sh' ->
     size sh' = size sh /\ 3 <= length sh' <= 4 /\ (3 <= length sh -> sh' = sh)
     /\ (length sh < 3 -> sh' = sh ++ repeat 1 (3 - length sh))
     /\ forall (a : arr (list Z)), fst a = sh -> flatten_F (reshape_F sh' a) = flatten_F a)
  /\ (4 < length sh -> mgh_shape sh = None).
Proof.
  intros sh. split.
  - intros sh' H. destruct (mgh_shape_spec sh sh' H) as (H1 & H2 & H3 & H4).
    repeat split; try assumption; try lia. intros a Ha. apply reshape_same_bytes. now rewrite Ha.
  - intros H. unfold mgh_shape. apply Nat.ltb_lt in H. now rewrite H.
Qed.
Print Assumptions C01_mgh_shape.

(* non-vacuity: a 3 x 1 x 2 big-endian complex64 array (2 words of 4 bytes per element) in a
   single-file layout with a 5-byte "header", 4-byte extender and vox_offset 16 *)
Definition nv_arr : arr (list Z) :=
  of_C_list [0; 0]%Z [3; 1; 2] [[1; 2]; [3; 4]; [5; 6]; [7; 8]; [9; 10]; [4290772992; 2139095040]]%Z.
Example C01_nonvacuous :
  layout_ok (LSingle [9; 9; 9; 9; 9]%Z [0; 0; 0; 0]%Z 16) = true /\ arr_ok 4 2 nv_arr
  /\ flatten_F nv_arr = [[1; 2]; [5; 6]; [9; 10]; [3; 4]; [7; 8]; [4290772992; 2139095040]]%Z
  /\ firstn 24 (skipn 16 (write_image (LSingle [9; 9; 9; 9; 9]%Z [0; 0; 0; 0]%Z 16) true 4 nv_arr))
     = [0;0;0;1; 0;0;0;2; 0;0;0;5; 0;0;0;6; 0;0;0;9; 0;0;0;10]%Z.
Proof.
  split; [reflexivity|]. split; [|split; vm_compute; reflexivity].
  unfold arr_ok.
  replace (flatten_F nv_arr) with [[1; 2]; [5; 6]; [9; 10]; [3; 4]; [7; 8]; [4290772992; 2139095040]]%Z
    by (vm_compute; reflexivity).
  repeat (apply Forall_cons;
          [split; [reflexivity|
                   repeat (apply Forall_cons; [unfold word_ok; change (pow256 4) with 4294967296%Z; lia|]);
                   apply Forall_nil]|]).
  apply Forall_nil.
Qed.
