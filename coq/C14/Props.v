(* C14/Props.v — property theorems only.  Property C14: concurrent reads through a shared
   file handle never mix up data.  Every statement quantifies over ALL schedules (lists of
   thread ids of any length), ALL pools of threads (total maps nat -> program), all file
   contents and initial positions; nothing is bounded. *)
From Coq Require Import ZArith List Bool Lia Arith.
From NV Require Import Base.Bytes C14.Model C14.Lemmas.
Import ListNotations.
Open Scope Z_scope.

(* the position of the shared handle is changed only by the thread that holds the lock;
   whoever holds it has recursion depth >= 1 and still has calls to make (so it will
   release) *)
Theorem C14_lock_discipline_inv : forall bytes p0 progs sched t,
  (forall u, well_locked (progs u) = true) ->
  let w := run bytes (init p0 progs) sched in
  (pos (step bytes w t) <> pos w -> owner w = Some t) /\
  (forall u, owner w = Some u -> (0 < depth w)%nat /\ finished w u = false).
Proof. exact lock_discipline. Qed.
Print Assumptions C14_lock_discipline_inv.

(* for EVERY schedule: a thread that has completed its program has not died and the byte
   strings its reads returned are exactly those it gets single-threaded (`solo`) *)
Theorem C14_reads_correct : forall bytes p0 progs sched t,
  (forall u, well_locked (progs u) = true) ->
  let w := run bytes (init p0 progs) sched in
  finished w t = true ->
  failed (thr w t) = false /\ recs (thr w t) = solo bytes p0 (progs t).
Proof. exact reads_correct. Qed.
Print Assumptions C14_reads_correct.

(* ... and at every moment of every schedule what a thread has read so far is a prefix of
   its single-threaded result: no single read observes another thread's position *)
Theorem C14_reads_prefix : forall bytes p0 progs sched t,
  (forall u, well_locked (progs u) = true) ->
  let w := run bytes (init p0 progs) sched in
  failed (thr w t) = false /\ exists rest, solo bytes p0 (progs t) = recs (thr w t) ++ rest.
Proof. exact reads_prefix. Qed.
Print Assumptions C14_reads_prefix.

(* the hypothesis is met by the code paths: read_segments for any segment list, the
   whole-array read for any position-only memmap probe, and either of them run by a caller
   that already holds the (re-entrant) lock — with the same single-threaded meaning *)
Theorem C14_programs_well_locked :
  (forall segs nbytes, Forall seg_ok segs -> well_locked (segs_prog segs nbytes) = true) /\
  (forall probe offset nbytes ri, probe_ok probe = true -> 0 <= offset -> 0 <= nbytes ->
     well_locked (whole_prog probe offset nbytes ri) = true) /\
  (forall bytes q p, well_locked p = true ->
     well_locked (outer_locked p) = true /\ solo bytes q (outer_locked p) = solo bytes q p).
Proof. exact programs_well_locked. Qed.
Print Assumptions C14_programs_well_locked.

(* `solo` is the machine's own single-threaded behaviour: a well-locked program run alone
   completes, does not die, and reads `solo` *)
Theorem C14_solo_is_single_threaded : forall bytes p0 pr, well_locked pr = true ->
  run_alone bytes p0 pr = mkThread [] (solo bytes p0 pr) false.
Proof. exact run_alone_solo. Qed.
Print Assumptions C14_solo_is_single_threaded.

(* no deadlock (so C14_reads_correct is not vacuous on any schedule that keeps granting
   runnable threads): while a thread is unfinished some thread can move, and a move consumes
   one call *)
Theorem C14_progress : forall bytes p0 progs sched t,
  (forall u, well_locked (progs u) = true) ->
  let w := run bytes (init p0 progs) sched in
  finished w t = false -> exists u, effective w u = true.
Proof. exact progress. Qed.
Print Assumptions C14_progress.

(* what the lock buys: the same calls without acquire/release allow a schedule on which a
   completed read returns another thread's bytes (two threads, one segment each:
   seek_0 seek_1 read_0 read_1) *)
Theorem C14_without_lock_refuted :
  exists bytes p0 l sched t,
    (forall u, well_locked (progs_of l u) = true) /\
    let w := run bytes (init p0 (fun u => strip_lock (progs_of l u))) sched in
    finished w t = true /\ recs (thr w t) <> solo bytes p0 (progs_of l t).
Proof.
  exists [10;11;12;13;14;15;16;17], 0, [segs_prog [(0, 2)] 2; segs_prog [(4, 2)] 2],
         [0%nat; 1%nat; 0%nat; 1%nat], 0%nat.
  split.
  - intros [|[|[|u]]]; reflexivity.
  - vm_compute. split; [reflexivity|discriminate].
Qed.
Print Assumptions C14_without_lock_refuted.

(* non-vacuity: three threads (a two-segment sliced read, a whole-array read with a memmap
   probe made by a caller already holding the lock, a one-segment read) on a schedule with
   blocked acquisitions and pre-emptions inside critical sections; all complete and each has
   its own bytes *)
Example C14_nonvacuous :
  let bytes := [10;11;12;13;14;15;16;17;18;19] in
  let l := [segs_prog [(1, 2); (6, 2)] 4;
            outer_locked (whole_prog [SeekEnd; Tell] 2 8 true);
            segs_prog [(8, 9)] 9] in
  let sched := [0;0;1;2;0;1;0;1;1;2;1;0;1;1;1;1;1;0;2;0;0;0;2;2;2;2]%nat in
  let w := run bytes (init 5 (progs_of l)) sched in
  (forall u, well_locked (progs_of l u) = true) /\
  fst (run_trace bytes (init 5 (progs_of l)) [0;0;1;2;0;1]%nat) = [true;true;false;false;true;false] /\
  (finished w 0 && finished w 1 && finished w 2)%nat = true /\
  recs (thr w 0%nat) = [[11;12]; [16;17]] /\
  recs (thr w 1%nat) = [[12;13;14;15;16;17;18;19]] /\
  recs (thr w 2%nat) = [[18;19]].
Proof.
  cbv zeta. split; [intros [|[|[|[|u]]]]; reflexivity|]. vm_compute. repeat split; reflexivity.
Qed.
