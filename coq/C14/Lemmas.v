(* C14/Lemmas.v — proofs about C14/Model.v *)
From Coq Require Import ZArith List Bool Lia Arith ZifyBool.
From NV Require Import Base.Bytes C14.Model.
Import ListNotations.
Open Scope Z_scope.

(* recursion depth thread u holds *)
Definition held (w : world) (u : nat) : nat := if owned_by w u then depth w else O.

(* Invariant of thread u with original program P:
   - it has not died;
   - what is left of its program is well-locked from the depth it holds now, `sk` telling
     whether it has positioned the handle in its current critical section;
   - what it has read so far, followed by what the rest of its program reads when run ALONE
     from position q, is its single-threaded result — for every q if it does not rely on
     the position (not holding the lock, or not sought yet), for q = the shared position
     otherwise. *)
Definition thr_inv (bytes : list Z) (p0 : Z) (P : prog) (w : world) (u : nat) : Prop :=
  failed (thr w u) = false /\
  exists sk, wl (held w u) sk (todo (thr w u)) = true /\
    forall q, (owned_by w u = true -> sk = true -> q = pos w) ->
      recs (thr w u) ++ solo bytes q (todo (thr w u)) = solo bytes p0 P.

Definition Inv (bytes : list Z) (p0 : Z) (progs : nat -> prog) (w : world) : Prop :=
  (forall u, owner w = Some u -> (0 < depth w)%nat) /\
  forall u, thr_inv bytes p0 (progs u) w u.

(* ---- small facts -------------------------------------------------------------------- *)
Lemma upd_same f t x : upd f t x t = x.
Proof. unfold upd. now rewrite Nat.eqb_refl. Qed.

Lemma upd_other f t x u : u <> t -> upd f t x u = f u.
Proof. intros H. unfold upd. destruct (Nat.eqb_spec u t); [contradiction|reflexivity]. Qed.

Lemma owned_by_spec w t : owned_by w t = true <-> owner w = Some t.
Proof.
  unfold owned_by. destruct (owner w) as [u|]; [|split; discriminate].
  destruct (Nat.eqb_spec u t) as [->|Hne]; split; intros H; try reflexivity; try discriminate.
  injection H as ->. contradiction.
Qed.

Lemma owned_excl w t u : owned_by w t = true -> u <> t -> owned_by w u = false.
Proof.
  intros Ht Hne. destruct (owned_by w u) eqn:E; [|reflexivity].
  apply owned_by_spec in Ht. apply owned_by_spec in E. congruence.
Qed.

Lemma held_nonzero w t : Nat.eqb (held w t) 0 = false -> owned_by w t = true /\ held w t = depth w.
Proof. unfold held. destruct (owned_by w t); [auto|discriminate]. Qed.

(* the results of a program that does not rely on the incoming position do not depend on it *)
Lemma solo_indep bytes : forall p d sk q q', wl d sk p = true -> (sk = false \/ d = O) ->
  solo bytes q p = solo bytes q' p.
Proof.
  induction p as [|op r IH]; intros d sk q q' H Hs; [reflexivity|].
  destruct op; cbn [wl solo] in *.
  - eapply IH; [exact H|]. destruct d; cbn; [left; reflexivity|].
    destruct Hs as [->|Hd]; [left; reflexivity|discriminate].
  - destruct d; [discriminate|]. eapply IH; [exact H|].
    destruct Hs as [->|Hd]; [left; reflexivity|discriminate].
  - reflexivity.
  - reflexivity.
  - apply andb_prop in H as [_ H]. eapply IH; eauto.
  - destruct Hs as [->| ->]; cbn in H; [rewrite andb_false_r in H|]; discriminate.
  - destruct Hs as [->| ->]; cbn in H; [rewrite andb_false_r in H|]; discriminate.
Qed.

(* a step of t leaves the invariant of another thread alone *)
Lemma other_inv bytes p0 P w w' u :
  thr w' u = thr w u ->
  owned_by w' u = owned_by w u ->
  (owned_by w u = true -> pos w' = pos w /\ depth w' = depth w) ->
  thr_inv bytes p0 P w u -> thr_inv bytes p0 P w' u.
Proof.
  intros Ht Ho Hp (Hf & sk & Hwl & Hq). unfold thr_inv, held in *. rewrite Ht, Ho.
  split; [exact Hf|]. exists sk. destruct (owned_by w u) eqn:E.
  - destruct (Hp eq_refl) as [Hpos Hdep]. rewrite Hpos, Hdep. split; assumption.
  - split; [assumption|]. intros q _. apply Hq. intros; discriminate.
Qed.

Lemma init_inv bytes p0 progs :
  (forall u, well_locked (progs u) = true) -> Inv bytes p0 progs (init p0 progs).
Proof.
  intros Hw. split; [intros u H; discriminate|].
  intros u. split; [reflexivity|]. exists false. cbn. split; [apply Hw|].
  intros q _. eapply solo_indep; [apply Hw|right; reflexivity].
Qed.

Lemma step_inv bytes p0 progs w t : Inv bytes p0 progs w -> Inv bytes p0 progs (step bytes w t).
Proof.
  intros HI. pose proof HI as [Hd H]. unfold step.
  destruct (todo (thr w t)) as [|op rest] eqn:Et; [exact HI|].
  pose proof (H t) as (Hf & sk & Hwl & Hq). rewrite Et in Hwl, Hq.
  destruct op.
  - (* Acq *)
    destruct (owner w) as [ow|] eqn:Eo.
    + destruct (Nat.eqb_spec ow t) as [->|Hne]; cbv iota; [|exact HI].
      (* re-entrant acquire *)
      assert (Hown : owned_by w t = true) by now apply owned_by_spec.
      assert (Hdp : (0 < depth w)%nat) by now apply (Hd t).
      split; [intros u _; cbn; lia|].
      intros u. destruct (Nat.eq_dec u t) as [->|Hut].
      * unfold thr_inv, held, owned_by in *. cbn [thr owner depth pos]. rewrite upd_same, Eo, Nat.eqb_refl in *.
        cbn [todo recs failed wl solo] in *. split; [exact Hf|].
        destruct (depth w) as [|dw] eqn:Edw; [lia|]. cbn [Nat.eqb] in Hwl.
        exists sk. split; [exact Hwl|]. intros q Hqq. apply Hq. exact Hqq.
      * apply (other_inv bytes p0 _ w); cbn [thr owner depth pos]; auto.
        -- now apply upd_other.
        -- unfold owned_by; cbn [owner]. now rewrite Eo.
        -- intros Hu. rewrite (owned_excl w t u Hown Hut) in Hu. discriminate.
    + (* free lock *)
      assert (Hown : owned_by w t = false) by (unfold owned_by; now rewrite Eo).
      split; [intros u _; cbn; lia|].
      intros u. destruct (Nat.eq_dec u t) as [->|Hut].
      * unfold thr_inv, held in *. rewrite Hown in Hwl.
        unfold owned_by. cbn [thr owner depth pos]. rewrite upd_same, Nat.eqb_refl.
        cbn [todo recs failed wl solo Nat.eqb] in *. split; [exact Hf|].
        exists false. split; [exact Hwl|]. intros q _.
        rewrite (solo_indep bytes rest 1%nat false q (pos w) Hwl (or_introl eq_refl)).
        apply Hq. reflexivity.
      * apply (other_inv bytes p0 _ w); cbn [thr owner depth pos]; auto.
        -- now apply upd_other.
        -- unfold owned_by; cbn [owner]. rewrite Eo.
           destruct (Nat.eqb_spec t u); [congruence|reflexivity].
        -- unfold owned_by. rewrite Eo. discriminate.
  - (* Rel *)
    destruct (owned_by w t) eqn:Hown.
    + assert (Eo : owner w = Some t) by now apply owned_by_spec.
      unfold thr_inv, held in Hwl. rewrite Hown in Hwl.
      destruct (depth w) as [|[|d']] eqn:Edw; cbn [wl] in Hwl; [discriminate| |].
      * (* last release *)
        split; [intros u Hu; discriminate|].
        intros u. destruct (Nat.eq_dec u t) as [->|Hut].
        -- unfold thr_inv, held, owned_by. cbn [thr owner depth pos]. rewrite upd_same.
           cbn [todo recs failed]. split; [exact Hf|]. exists sk. split; [exact Hwl|].
           intros q _. rewrite (solo_indep bytes rest O sk q (pos w) Hwl (or_intror eq_refl)).
           apply (Hq (pos w)). reflexivity.
        -- apply (other_inv bytes p0 _ w); cbn [thr owner depth pos]; auto.
           ++ now apply upd_other.
           ++ unfold owned_by at 1; cbn [owner]. symmetry. now apply (owned_excl w t).
           ++ intros Hu. rewrite (owned_excl w t u Hown Hut) in Hu. discriminate.
      * (* inner release *)
        split; [intros u _; cbn; lia|].
        intros u. destruct (Nat.eq_dec u t) as [->|Hut].
        -- unfold thr_inv, held, owned_by. cbn [thr owner depth pos]. rewrite upd_same, Nat.eqb_refl.
           cbn [todo recs failed]. split; [exact Hf|]. exists sk. split; [exact Hwl|].
           intros q Hqq. apply Hq. intros _ Hs. apply Hqq; auto.
        -- apply (other_inv bytes p0 _ w); cbn [thr owner depth pos]; auto.
           ++ now apply upd_other.
           ++ unfold owned_by; cbn [owner]. now rewrite Eo.
           ++ intros Hu. rewrite (owned_excl w t u Hown Hut) in Hu. discriminate.
    + unfold held in Hwl. rewrite Hown in Hwl. cbn in Hwl. discriminate.
  - (* Seek *)
    cbn [wl] in Hwl. apply andb_prop in Hwl as [Hwl Hr]. apply andb_prop in Hwl as [Hh Ho].
    apply negb_true_iff in Hh. destruct (held_nonzero w t Hh) as [Hown Hhd].
    split; [exact Hd|].
    intros u. destruct (Nat.eq_dec u t) as [->|Hut].
    + unfold thr_inv. replace (held _ t) with (held w t) by (unfold held, owned_by; reflexivity).
      replace (owned_by _ t) with (owned_by w t) by (unfold owned_by; reflexivity).
      cbn [thr pos]. rewrite upd_same. cbn [todo recs failed]. split; [exact Hf|].
      exists true. split; [exact Hr|]. intros q Hqq. rewrite (Hqq Hown eq_refl).
      apply (Hq (pos w)). reflexivity.
    + apply (other_inv bytes p0 _ w); cbn [thr owner depth pos]; auto.
      * now apply upd_other.
      * intros Hu. rewrite (owned_excl w t u Hown Hut) in Hu. discriminate.
  - (* SeekEnd *)
    cbn [wl] in Hwl. apply andb_prop in Hwl as [Hh Hr].
    apply negb_true_iff in Hh. destruct (held_nonzero w t Hh) as [Hown Hhd].
    split; [exact Hd|].
    intros u. destruct (Nat.eq_dec u t) as [->|Hut].
    + unfold thr_inv. replace (held _ t) with (held w t) by (unfold held, owned_by; reflexivity).
      replace (owned_by _ t) with (owned_by w t) by (unfold owned_by; reflexivity).
      cbn [thr pos]. rewrite upd_same. cbn [todo recs failed]. split; [exact Hf|].
      exists true. split; [exact Hr|]. intros q Hqq. rewrite (Hqq Hown eq_refl).
      apply (Hq (pos w)). reflexivity.
    + apply (other_inv bytes p0 _ w); cbn [thr owner depth pos]; auto.
      * now apply upd_other.
      * intros Hu. rewrite (owned_excl w t u Hown Hut) in Hu. discriminate.
  - (* Tell *)
    cbn [wl] in Hwl. apply andb_prop in Hwl as [Hh Hr].
    split; [exact Hd|].
    intros u. destruct (Nat.eq_dec u t) as [->|Hut].
    + unfold thr_inv. replace (held _ t) with (held w t) by (unfold held, owned_by; reflexivity).
      replace (owned_by _ t) with (owned_by w t) by (unfold owned_by; reflexivity).
      cbn [thr pos]. rewrite upd_same. cbn [todo recs failed]. split; [exact Hf|].
      exists sk. split; [exact Hr|]. intros q Hqq. apply Hq. exact Hqq.
    + apply (other_inv bytes p0 _ w); cbn [thr owner depth pos]; auto.
      now apply upd_other.
  - (* Read *)
    cbn [wl] in Hwl. apply andb_prop in Hwl as [Hwl Hr]. apply andb_prop in Hwl as [Hwl Hn].
    apply andb_prop in Hwl as [Hh Hsk]. subst sk.
    apply negb_true_iff in Hh. destruct (held_nonzero w t Hh) as [Hown Hhd].
    split; [exact Hd|].
    intros u. destruct (Nat.eq_dec u t) as [->|Hut].
    + unfold thr_inv. replace (held _ t) with (held w t) by (unfold held, owned_by; reflexivity).
      replace (owned_by _ t) with (owned_by w t) by (unfold owned_by; reflexivity).
      cbn [thr pos]. rewrite upd_same. cbn [todo recs failed]. split; [exact Hf|].
      exists true. split; [exact Hr|]. intros q Hqq. rewrite (Hqq Hown eq_refl).
      rewrite <- app_assoc. apply (Hq (pos w)). reflexivity.
    + apply (other_inv bytes p0 _ w); cbn [thr owner depth pos]; auto.
      * now apply upd_other.
      * intros Hu. rewrite (owned_excl w t u Hown Hut) in Hu. discriminate.
  - (* ReadInto *)
    cbn [wl] in Hwl. apply andb_prop in Hwl as [Hwl Hr]. apply andb_prop in Hwl as [Hwl Hn].
    apply andb_prop in Hwl as [Hh Hsk]. subst sk.
    apply negb_true_iff in Hh. destruct (held_nonzero w t Hh) as [Hown Hhd].
    split; [exact Hd|].
    intros u. destruct (Nat.eq_dec u t) as [->|Hut].
    + unfold thr_inv. replace (held _ t) with (held w t) by (unfold held, owned_by; reflexivity).
      replace (owned_by _ t) with (owned_by w t) by (unfold owned_by; reflexivity).
      cbn [thr pos]. rewrite upd_same. cbn [todo recs failed]. split; [exact Hf|].
      exists true. split; [exact Hr|]. intros q Hqq. rewrite (Hqq Hown eq_refl).
      rewrite <- app_assoc. apply (Hq (pos w)). reflexivity.
    + apply (other_inv bytes p0 _ w); cbn [thr owner depth pos]; auto.
      * now apply upd_other.
      * intros Hu. rewrite (owned_excl w t u Hown Hut) in Hu. discriminate.
Qed.

Lemma run_inv bytes p0 progs sched : forall w, Inv bytes p0 progs w -> Inv bytes p0 progs (run bytes w sched).
Proof.
  induction sched as [|t sched IH]; intros w H; [exact H|]. cbn. apply IH, step_inv, H.
Qed.

Lemma reach_inv bytes p0 progs sched :
  (forall u, well_locked (progs u) = true) -> Inv bytes p0 progs (run bytes (init p0 progs) sched).
Proof. intros Hw. apply run_inv, init_inv, Hw. Qed.

(* ---- statements used by Props.v ------------------------------------------------------ *)

(* every schedule, any number of threads: a finished thread has not died and has read
   exactly what it reads alone *)
Lemma reads_correct bytes p0 progs sched t :
  (forall u, well_locked (progs u) = true) ->
  let w := run bytes (init p0 progs) sched in
  finished w t = true ->
  failed (thr w t) = false /\ recs (thr w t) = solo bytes p0 (progs t).
Proof.
  intros Hw w Hfin. destruct (reach_inv bytes p0 progs sched Hw) as [_ H].
  destruct (H t) as (Hf & sk & _ & Hq). fold w in Hf, Hq. split; [exact Hf|].
  unfold finished in Hfin. destruct (todo (thr w t)); [|discriminate].
  specialize (Hq (pos w) (fun _ _ => eq_refl)). cbn in Hq. now rewrite app_nil_r in Hq.
Qed.

(* ... and at every moment what it has read so far is a prefix of that: no read ever
   returns bytes selected by another thread's position *)
Lemma reads_prefix bytes p0 progs sched t :
  (forall u, well_locked (progs u) = true) ->
  let w := run bytes (init p0 progs) sched in
  failed (thr w t) = false /\ exists rest, solo bytes p0 (progs t) = recs (thr w t) ++ rest.
Proof.
  intros Hw w. destruct (reach_inv bytes p0 progs sched Hw) as [_ H].
  destruct (H t) as (Hf & sk & _ & Hq). fold w in Hf, Hq. split; [exact Hf|].
  eexists. symmetry. apply (Hq (pos w)). reflexivity.
Qed.

(* the position is changed only by the thread that holds the lock; the holder has depth >= 1
   and is not finished *)
Lemma lock_discipline bytes p0 progs sched t :
  (forall u, well_locked (progs u) = true) ->
  let w := run bytes (init p0 progs) sched in
  (pos (step bytes w t) <> pos w -> owner w = Some t) /\
  (forall u, owner w = Some u -> (0 < depth w)%nat /\ finished w u = false).
Proof.
  intros Hw w. destruct (reach_inv bytes p0 progs sched Hw) as [Hd H]. fold w in Hd, H. split.
  - intros Hp. destruct (H t) as (_ & sk & Hwl & _). apply owned_by_spec.
    unfold step in Hp. destruct (todo (thr w t)) as [|op rest]; [contradiction|].
    destruct op; cbn [wl] in Hwl.
    + destruct (owner w) as [ow|]; [destruct (Nat.eqb ow t)|]; cbn in Hp; contradiction.
    + destruct (owned_by w t); [reflexivity|]. cbn in Hp. contradiction.
    + apply andb_prop in Hwl as [Hwl _]. apply andb_prop in Hwl as [Hh _].
      apply negb_true_iff in Hh. now apply held_nonzero in Hh.
    + apply andb_prop in Hwl as [Hh _]. apply negb_true_iff in Hh. now apply held_nonzero in Hh.
    + cbn in Hp. contradiction.
    + apply andb_prop in Hwl as [Hwl _]. apply andb_prop in Hwl as [Hwl _].
      apply andb_prop in Hwl as [Hh _]. apply negb_true_iff in Hh. now apply held_nonzero in Hh.
    + apply andb_prop in Hwl as [Hwl _]. apply andb_prop in Hwl as [Hwl _].
      apply andb_prop in Hwl as [Hh _]. apply negb_true_iff in Hh. now apply held_nonzero in Hh.
  - intros u Hu. pose proof (Hd u Hu) as Hdp. split; [exact Hdp|].
    destruct (H u) as (_ & sk & Hwl & _). unfold held in Hwl.
    apply owned_by_spec in Hu. rewrite Hu in Hwl. unfold finished.
    destruct (todo (thr w u)); [|reflexivity]. cbn in Hwl. destruct (depth w); [lia|discriminate].
Qed.

(* no deadlock: while some thread is unfinished some thread can move, and a move that is
   not blocked consumes exactly one call of that thread and nothing of the others *)
Lemma progress bytes p0 progs sched t :
  (forall u, well_locked (progs u) = true) ->
  let w := run bytes (init p0 progs) sched in
  finished w t = false -> exists u, effective w u = true.
Proof.
  intros Hw w Hfin. destruct (lock_discipline bytes p0 progs sched t Hw) as [_ Ho]. fold w in Ho.
  destruct (owner w) as [ow|] eqn:Eo.
  - exists ow. destruct (Ho ow eq_refl) as [_ Hnf]. unfold effective, blocked, finished in *.
    destruct (todo (thr w ow)) as [|op r]; [discriminate|]. destruct op; try reflexivity.
    rewrite Eo, Nat.eqb_refl. reflexivity.
  - exists t. unfold effective, blocked, finished in *.
    destruct (todo (thr w t)) as [|op r]; [discriminate|]. destruct op; try reflexivity.
    rewrite Eo. reflexivity.
Qed.

Lemma effective_consumes bytes w t :
  effective w t = true ->
  S (length (todo (thr (step bytes w t) t))) = length (todo (thr w t)) \/
  failed (thr (step bytes w t) t) = true.
Proof.
  unfold effective, blocked, step. destruct (todo (thr w t)) as [|op r]; [discriminate|].
  destruct op; intros He.
  - destruct (owner w) as [ow|]; [destruct (Nat.eqb ow t); [|discriminate]|];
      cbn [thr]; rewrite upd_same; left; reflexivity.
  - destruct (owned_by w t); [destruct (depth w) as [|[|?]]|]; cbn [thr]; rewrite upd_same;
      (left; reflexivity) || (right; reflexivity).
  - cbn [thr]; rewrite upd_same; left; reflexivity.
  - cbn [thr]; rewrite upd_same; left; reflexivity.
  - cbn [thr]; rewrite upd_same; left; reflexivity.
  - cbn [thr]; rewrite upd_same; left; reflexivity.
  - cbn [thr]; rewrite upd_same; left; reflexivity.
Qed.

(* ---- the programs of the two read paths are well-locked ------------------------------ *)
Definition seg_ok (s : seg) : Prop := 0 <= fst s /\ 0 <= snd s.

Lemma wl0_sk sk sk' r : wl 0 sk r = wl 0 sk' r.
Proof. destruct r as [|op r]; [reflexivity|]. destruct op; reflexivity. Qed.

Lemma seg_prog_wl s r : seg_ok s -> wl 0 false (seg_prog s ++ r) = wl 0 false r.
Proof.
  intros [Ho Hn]. unfold seg_prog. cbn [app wl Nat.eqb negb andb].
  replace (0 <=? fst s) with true by lia. replace (0 <=? snd s) with true by lia.
  cbn [andb]. apply wl0_sk.
Qed.

Lemma flat_seg_prog_wl segs : Forall seg_ok segs -> wl 0 false (flat_map seg_prog segs) = true.
Proof.
  induction segs as [|s segs IH]; intros H; [reflexivity|].
  inversion H as [|? ? Hs Hr]; subst. cbn [flat_map]. rewrite seg_prog_wl by assumption. auto.
Qed.

Lemma segs_prog_wl segs nbytes : Forall seg_ok segs -> well_locked (segs_prog segs nbytes) = true.
Proof.
  intros H. unfold well_locked, segs_prog. destruct segs as [|s [|s2 segs]]; [reflexivity| |].
  - inversion H; subst. rewrite <- (app_nil_r (seg_prog s)). now rewrite seg_prog_wl.
  - destruct (nbytes =? 0); [reflexivity|]. now apply flat_seg_prog_wl.
Qed.

Lemma probe_wl : forall probe d sk r, probe_ok probe = true -> d <> O ->
  exists sk', wl d sk (probe ++ r) = wl d sk' r /\ (sk = true -> sk' = true).
Proof.
  induction probe as [|op p IH]; intros d sk r Hp Hd; [exists sk; auto|].
  cbn [probe_ok forallb] in Hp. apply andb_prop in Hp as [Hop Hp]. fold (probe_ok p) in Hp.
  assert (Hnz : negb (Nat.eqb d 0) = true) by (destruct d; [contradiction|reflexivity]).
  destruct op; try discriminate; cbn [app wl]; rewrite Hnz; cbn [andb].
  - rewrite Hop. cbn [andb]. destruct (IH d true r Hp Hd) as (sk' & E & Hs). exists sk'. auto.
  - destruct (IH d true r Hp Hd) as (sk' & E & Hs). exists sk'. auto.
  - destruct (IH d sk r Hp Hd) as (sk' & E & Hs). exists sk'. auto.
Qed.

Lemma whole_prog_wl probe offset nbytes ri :
  probe_ok probe = true -> 0 <= offset -> 0 <= nbytes ->
  well_locked (whole_prog probe offset nbytes ri) = true.
Proof.
  intros Hp Ho Hn. unfold well_locked, whole_prog. cbn [wl Nat.eqb].
  destruct (probe_wl probe 1%nat false
              ((if nbytes =? 0 then [] else [Seek offset; if ri then ReadInto nbytes else Read nbytes]) ++ [Rel])
              Hp ltac:(discriminate)) as (sk' & E & _).
  rewrite E. destruct (nbytes =? 0); [reflexivity|].
  destruct ri; cbn [app wl Nat.eqb negb andb];
    replace (0 <=? offset) with true by lia; replace (0 <=? nbytes) with true by lia; reflexivity.
Qed.

(* holding the lock around a well-locked program keeps it well-locked and its meaning *)
Lemma wl_deeper : forall p d sk sk', wl d sk p = true -> (sk = true -> sk' = true) ->
  wl (S d) sk' (p ++ [Rel]) = true.
Proof.
  induction p as [|op r IH]; intros d sk sk' H Hs.
  - cbn in *. destruct d; [reflexivity|discriminate].
  - destruct op; cbn [app wl] in *.
    + eapply IH; [exact H|]. destruct d; cbn; [discriminate|exact Hs].
    + destruct d; [discriminate|]. eapply IH; eauto.
    + apply andb_prop in H as [H Hr]. apply andb_prop in H as [Hh Ho]. rewrite Ho. cbn [Nat.eqb negb andb].
      eapply IH; eauto.
    + apply andb_prop in H as [Hh Hr]. cbn [Nat.eqb negb andb]. eapply IH; eauto.
    + apply andb_prop in H as [Hh Hr]. cbn [Nat.eqb negb andb]. eapply IH; eauto.
    + apply andb_prop in H as [H Hr]. apply andb_prop in H as [H Hn]. apply andb_prop in H as [Hh Hk].
      rewrite Hn, (Hs Hk). cbn [Nat.eqb negb andb]. eapply IH; eauto.
    + apply andb_prop in H as [H Hr]. apply andb_prop in H as [H Hn]. apply andb_prop in H as [Hh Hk].
      rewrite Hn, (Hs Hk). cbn [Nat.eqb negb andb]. eapply IH; eauto.
Qed.

Lemma solo_app_rel bytes : forall p q, solo bytes q (p ++ [Rel]) = solo bytes q p.
Proof.
  induction p as [|op r IH]; intros q; [reflexivity|].
  destruct op; cbn [app solo]; rewrite ?IH; reflexivity.
Qed.

Lemma outer_locked_ok bytes q p : well_locked p = true ->
  well_locked (outer_locked p) = true /\ solo bytes q (outer_locked p) = solo bytes q p.
Proof.
  intros H. unfold well_locked, outer_locked in *. split.
  - cbn [wl Nat.eqb]. eapply wl_deeper; [exact H|auto].
  - cbn [solo]. apply solo_app_rel.
Qed.

Lemma programs_well_locked :
  (forall segs nbytes, Forall seg_ok segs -> well_locked (segs_prog segs nbytes) = true) /\
  (forall probe offset nbytes ri, probe_ok probe = true -> 0 <= offset -> 0 <= nbytes ->
     well_locked (whole_prog probe offset nbytes ri) = true) /\
  (forall bytes q p, well_locked p = true ->
     well_locked (outer_locked p) = true /\ solo bytes q (outer_locked p) = solo bytes q p).
Proof. repeat split; intros; try apply segs_prog_wl; try apply whole_prog_wl; try apply outer_locked_ok; auto. Qed.

(* ---- `solo` is what the machine computes for a thread that runs alone ----------------- *)
Lemma step_owner bytes w t :
  owner (step bytes w t) = owner w \/ owner (step bytes w t) = Some t \/ owner (step bytes w t) = None.
Proof.
  unfold step. destruct (todo (thr w t)) as [|op r]; [auto|]. destruct op; cbn [owner]; auto.
  - destruct (owner w) as [ow|] eqn:Eo; [destruct (Nat.eqb ow t)|]; cbn [owner]; rewrite ?Eo; auto.
  - destruct (owned_by w t); [destruct (depth w) as [|[|?]]|]; cbn [owner]; auto.
Qed.

Lemma alone_finishes bytes p0 progs t : forall n w, Inv bytes p0 progs w ->
  (owner w = None \/ owner w = Some t) -> length (todo (thr w t)) = n ->
  finished (run bytes w (repeat t n)) t = true.
Proof.
  induction n as [|n IH]; intros w HI Ho Hl.
  - cbn. unfold finished. destruct (todo (thr w t)); [reflexivity|discriminate].
  - cbn [repeat run fold_left]. apply IH.
    + now apply step_inv.
    + destruct (step_owner bytes w t) as [E|[E|E]]; rewrite E; auto.
    + assert (He : effective w t = true).
      { unfold effective, blocked. destruct (todo (thr w t)) as [|op r]; [discriminate|].
        destruct op; try reflexivity. destruct Ho as [-> | ->]; [reflexivity|]. now rewrite Nat.eqb_refl. }
      destruct (effective_consumes bytes w t He) as [E|E]; [lia|].
      destruct (step_inv bytes p0 progs w t HI) as [_ H']. destruct (H' t) as [Hf _]. congruence.
Qed.

Lemma run_alone_solo bytes p0 pr : well_locked pr = true ->
  run_alone bytes p0 pr = mkThread [] (solo bytes p0 pr) false.
Proof.
  intros Hw. unfold run_alone.
  assert (Hwl : forall u : nat, well_locked ((fun _ : nat => pr) u) = true) by (intros; exact Hw).
  pose proof (alone_finishes bytes p0 (fun _ => pr) O (length pr) (init p0 (fun _ => pr))
                (init_inv bytes p0 _ Hwl) (or_introl eq_refl) eq_refl) as Hfin.
  destruct (reads_correct bytes p0 (fun _ => pr) (repeat O (length pr)) O Hwl Hfin) as [Hf Hr].
  unfold finished in Hfin.
  destruct (thr (run bytes (init p0 (fun _ => pr)) (repeat O (length pr))) O) as [td rc fl].
  cbn in *. destruct td; [|discriminate]. now subst.
Qed.
