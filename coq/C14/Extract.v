(* C14/Extract.v — extraction of the executable model (ExtrOcamlBasic only; Z/nat stay inductive) *)
Require Extraction. Require ExtrOcamlBasic.
From NV Require Import Base.Bytes C14.Model.
Extraction Language OCaml.
Extraction "c14_model.ml" segs_prog whole_prog outer_locked strip_lock well_locked probe_ok solo
  run run_trace init progs_of finished run_alone.
