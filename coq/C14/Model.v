(* C14/Model.v — concurrent reads through one shared file handle.
   Counterparts in /repo/nibabel:
     fileslice.py  read_segments (0 / 1 / many segments, `with lock: seek; read`)   -> segs_prog
     arrayproxy.py ArrayProxy._get_unscaled, whole-array branch
                   (`with self._get_fileobj() as fileobj, self._lock: array_from_file(...)`)
     volumeutils.py array_from_file (failed np.memmap probe; seek; readinto / read) -> whole_prog
     threading.RLock (owner + recursion depth; release by a non-owner raises)       -> step
   The shared state is the handle's position and the proxy's RLock; the file content is
   immutable.  A thread's program is the list of micro-steps (the wrapped calls it makes on
   the lock and on the file object) of its reads.  `step w t` lets thread t make its next
   call; a thread that is blocked on the lock or has nothing left to do does not move, so
   `run` is total over ALL schedules (lists of thread ids).  Any number of threads: the pool
   is a total map nat -> thread.  Bytes are Z.  Definitions only. *)
From Coq Require Import ZArith List Bool Arith.
From NV Require Import Base.Bytes.
Import ListNotations.
Open Scope Z_scope.

Inductive mstep :=
  | Acq                 (* lock.__enter__ / acquire *)
  | Rel                 (* lock.__exit__ / release *)
  | Seek (o : Z)        (* fileobj.seek(o) *)
  | SeekEnd             (* fileobj.seek(0, 2)   (np.memmap probing the length) *)
  | Tell                (* fileobj.tell() *)
  | Read (n : Z)        (* fileobj.read(n) *)
  | ReadInto (n : Z).   (* fileobj.readinto(bytearray(n)) *)

Definition prog := list mstep.

(* file.read(n) at position p of an immutable file: short at end of file, empty beyond it *)
Definition fslice (bytes : list Z) (p n : Z) : list Z := take n (drop p bytes).

(* ---- programs of the two read paths ------------------------------------------------ *)
Definition seg := (Z * Z)%type.           (* (absolute offset, length) *)

Definition seg_prog (s : seg) : prog := [Acq; Seek (fst s); Read (snd s); Rel].

(* read_segments(fileobj, segments, n_bytes, lock) *)
Definition segs_prog (segs : list seg) (nbytes : Z) : prog :=
  match segs with
  | [] => []
  | [s] => seg_prog s
  | _ => if nbytes =? 0 then [] else flat_map seg_prog segs
  end.

(* whole-array read under the proxy lock.  `probe` = the calls a failed np.memmap attempt
   makes on the handle before array_from_file falls back to seek/readinto (external code:
   measured by the harness; empty when mmap=False); has_readinto = hasattr(infile,'readinto') *)
Definition whole_prog (probe : prog) (offset nbytes : Z) (has_readinto : bool) : prog :=
  Acq :: probe ++
  (if nbytes =? 0 then []
   else [Seek offset; if has_readinto then ReadInto nbytes else Read nbytes]) ++ [Rel].

(* a caller holding the proxy's lock around its reads (RLock re-entrancy) *)
Definition outer_locked (p : prog) : prog := Acq :: p ++ [Rel].

(* the same calls without the lock *)
Definition is_lock_op (m : mstep) : bool := match m with Acq | Rel => true | _ => false end.
Definition strip_lock (p : prog) : prog := filter (fun m => negb (is_lock_op m)) p.

(* ---- well-locked programs: every file call is made with the lock held, every read is
   preceded by a seek made in the same outermost critical section, acquire/release are
   balanced.  d = recursion depth held, sk = "position set by me in this section". *)
Fixpoint wl (d : nat) (sk : bool) (p : prog) : bool :=
  match p with
  | [] => Nat.eqb d 0
  | Acq :: r => wl (S d) (if Nat.eqb d 0 then false else sk) r
  | Rel :: r => match d with O => false | S d' => wl d' sk r end
  | Seek o :: r => negb (Nat.eqb d 0) && (0 <=? o) && wl d true r
  | SeekEnd :: r => negb (Nat.eqb d 0) && wl d true r
  | Tell :: r => negb (Nat.eqb d 0) && wl d sk r
  | Read n :: r | ReadInto n :: r => negb (Nat.eqb d 0) && sk && (0 <=? n) && wl d sk r
  end.
Definition well_locked (p : prog) : bool := wl 0 false p.

(* what np.memmap may do on the handle before giving up: position calls only *)
Definition probe_ok (p : prog) : bool :=
  forallb (fun m => match m with Seek o => 0 <=? o | SeekEnd | Tell => true | _ => false end) p.

(* ---- single-threaded meaning of a program: the byte strings its reads return --------- *)
Fixpoint solo (bytes : list Z) (p : Z) (pr : prog) : list (list Z) :=
  match pr with
  | [] => []
  | Seek o :: r => solo bytes o r
  | SeekEnd :: r => solo bytes (zlen bytes) r
  | Read n :: r | ReadInto n :: r =>
      let d := fslice bytes p n in d :: solo bytes (p + zlen d) r
  | _ :: r => solo bytes p r
  end.

(* ---- the concurrent machine --------------------------------------------------------- *)
Record thread := mkThread { todo : prog; recs : list (list Z); failed : bool }.
Record world := mkWorld { pos : Z; owner : option nat; depth : nat; thr : nat -> thread }.

Definition upd (f : nat -> thread) (t : nat) (x : thread) : nat -> thread :=
  fun u => if Nat.eqb u t then x else f u.

Definition owned_by (w : world) (t : nat) : bool :=
  match owner w with Some u => Nat.eqb u t | None => false end.

(* thread t's next call cannot complete now (lock held by someone else) *)
Definition blocked (w : world) (t : nat) : bool :=
  match todo (thr w t) with
  | Acq :: _ => match owner w with Some u => negb (Nat.eqb u t) | None => false end
  | _ => false
  end.

(* the step makes progress: t has a call left and is not blocked *)
Definition effective (w : world) (t : nat) : bool :=
  match todo (thr w t) with [] => false | _ => negb (blocked w t) end.

Definition step (bytes : list Z) (w : world) (t : nat) : world :=
  let th := thr w t in
  match todo th with
  | [] => w
  | op :: rest =>
    let adv := mkThread rest (recs th) (failed th) in
    match op with
    | Acq =>
        match owner w with
        | None => mkWorld (pos w) (Some t) 1 (upd (thr w) t adv)
        | Some u => if Nat.eqb u t then mkWorld (pos w) (Some t) (S (depth w)) (upd (thr w) t adv)
                    else w                                   (* blocked *)
        end
    | Rel =>
        if owned_by w t then
          match depth w with
          | S (S d') => mkWorld (pos w) (Some t) (S d') (upd (thr w) t adv)
          | _ => mkWorld (pos w) None 0 (upd (thr w) t adv)
          end
        else (* RuntimeError: cannot release un-acquired lock — the read dies *)
          mkWorld (pos w) (owner w) (depth w) (upd (thr w) t (mkThread [] (recs th) true))
    | Seek o => mkWorld o (owner w) (depth w) (upd (thr w) t adv)
    | SeekEnd => mkWorld (zlen bytes) (owner w) (depth w) (upd (thr w) t adv)
    | Tell => mkWorld (pos w) (owner w) (depth w) (upd (thr w) t adv)
    | Read n | ReadInto n =>
        let d := fslice bytes (pos w) n in
        mkWorld (pos w + zlen d) (owner w) (depth w)
                (upd (thr w) t (mkThread rest (recs th ++ [d]) (failed th)))
    end
  end.

Definition run (bytes : list Z) (w : world) (sched : list nat) : world :=
  fold_left (step bytes) sched w.

(* run + which scheduler grants made progress (false = blocked on the lock or finished) *)
Fixpoint run_trace (bytes : list Z) (w : world) (sched : list nat) : list bool * world :=
  match sched with
  | [] => ([], w)
  | t :: r => let '(tr, w') := run_trace bytes (step bytes w t) r in (effective w t :: tr, w')
  end.

Definition init (p0 : Z) (progs : nat -> prog) : world :=
  mkWorld p0 None 0 (fun t => mkThread (progs t) [] false).

(* programs given as a finite list; every other thread id has the empty program *)
Definition progs_of (l : list prog) : nat -> prog := fun t => nth t l [].

Definition finished (w : world) (t : nat) : bool :=
  match todo (thr w t) with [] => true | _ => false end.

(* a thread runs alone until its program is exhausted *)
Definition run_alone (bytes : list Z) (p0 : Z) (pr : prog) : thread :=
  thr (run bytes (init p0 (fun _ => pr)) (repeat O (length pr))) O.
