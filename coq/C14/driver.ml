(* C14 driver body (after `open C14_model` and drvlib.ml).
   A program is a comma-separated list of calls: A (acquire) R (release) S<o> (seek o)
   E (seek(0,2)) T (tell) r<n> (read n) i<n> (readinto n); "-" is the empty program.
     segs <nbytes> [o1,n1,o2,n2,...]            -> ok <prog>      read_segments
     whole <probe-prog> <offset> <nbytes> <ri>  -> ok <prog>      whole-array read
     outer <prog> | strip <prog>                -> ok <prog>
     wl <prog> | probeok <prog>                 -> ok 0|1
     solo <filehex> <p0> <prog>                 -> ok <hex>;<hex>;...
     run <filehex> <p0> [sched] <prog>...       -> ok eff=<01..> pos=<p> owner=<t|-> depth=<d> | t0 | t1 ...
        each thread: <finished><failed>:<hex>;<hex>;...  *)
let step_of_string (s : string) : mstep =
  let arg () = z_of_string (String.sub s 1 (String.length s - 1)) in
  match s.[0] with
  | 'A' -> Acq | 'R' -> Rel | 'E' -> SeekEnd | 'T' -> Tell
  | 'S' -> Seek (arg ()) | 'r' -> Read (arg ()) | 'i' -> ReadInto (arg ())
  | _ -> failwith "bad step"
let prog_of_string (s : string) : mstep list =
  if s = "-" then [] else List.map step_of_string (String.split_on_char ',' s)
let string_of_step = function
  | Acq -> "A" | Rel -> "R" | SeekEnd -> "E" | Tell -> "T"
  | Seek o -> "S" ^ string_of_z o | Read n -> "r" ^ string_of_z n | ReadInto n -> "i" ^ string_of_z n
let string_of_prog (p : mstep list) : string =
  if p = [] then "-" else String.concat "," (List.map string_of_step p)
let rec pairs = function a :: b :: r -> (a, b) :: pairs r | [] -> [] | _ -> failwith "odd segment list"
let string_of_recs (l : z list list) : string = String.concat ";" (List.map hex_of_bytes l)
let handle op args = match op, args with
  | "segs", [nb; sl] -> "ok " ^ string_of_prog (segs_prog (pairs (zlist_of_string sl)) (z_of_string nb))
  | "whole", [pr; off; nb; ri] ->
    "ok " ^ string_of_prog (whole_prog (prog_of_string pr) (z_of_string off) (z_of_string nb) (bool_of_string ri))
  | "outer", [p] -> "ok " ^ string_of_prog (outer_locked (prog_of_string p))
  | "strip", [p] -> "ok " ^ string_of_prog (strip_lock (prog_of_string p))
  | "wl", [p] -> "ok " ^ string_of_bool (well_locked (prog_of_string p))
  | "probeok", [p] -> "ok " ^ string_of_bool (probe_ok (prog_of_string p))
  | "solo", [h; p0; p] -> "ok " ^ string_of_recs (solo (bytes_of_hex h) (z_of_string p0) (prog_of_string p))
  | "alone", [h; p0; p] ->
    let th = run_alone (bytes_of_hex h) (z_of_string p0) (prog_of_string p) in
    "ok " ^ string_of_bool (th.todo = []) ^ string_of_bool th.failed ^ ":" ^ string_of_recs th.recs
  | "run", h :: p0 :: sc :: ps ->
    let bytes = bytes_of_hex h in
    let progs = List.map prog_of_string ps in
    let sched = List.map (fun x -> nat_of_int (int_of_z x)) (zlist_of_string sc) in
    let (tr, w) = run_trace bytes (init (z_of_string p0) (progs_of progs)) sched in
    let thr_s i =
      let t = nat_of_int i in
      let th = w.thr t in
      string_of_bool (finished w t) ^ string_of_bool th.failed ^ ":" ^ string_of_recs th.recs in
    "ok eff=" ^ String.concat "" (List.map string_of_bool tr) ^ " pos=" ^ string_of_z w.pos ^
    " owner=" ^ (match w.owner with None -> "-" | Some t -> string_of_int (int_of_nat t)) ^
    " depth=" ^ string_of_int (int_of_nat w.depth) ^
    String.concat "" (List.mapi (fun i _ -> " | " ^ thr_s i) progs)
  | _ -> "err driver:badop"
let () = run_lines handle
