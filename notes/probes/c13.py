import numpy as np, warnings, random, io, traceback, itertools, os
warnings.simplefilter('ignore')
import nibabel as nib
print(nib.__file__)
# model
class Model:
    def __init__(s, kind, base, file_vals=None):
        s.kind=kind; s.heap={}; s.n=0
        s.cache=None
        if kind=='array': s.own=s.new(base.copy(), base.dtype)
        else: s.file=file_vals  # scaled values as float64
    def new(s,vals,dt): s.n+=1; s.heap[s.n]=[np.array(vals,dtype=dt),np.dtype(dt)]; return s.n
    def dataobj_vals(s): return s.heap[s.own][0] if s.kind=='array' else s.file
    def get_fdata(s,caching,dt):
        dt=np.dtype(dt)
        if s.cache is not None and s.heap[s.cache][1]==dt: return s.cache
        if s.kind=='array' and s.heap[s.own][1]==dt: loc=s.own
        else: loc=s.new(s.dataobj_vals().astype(dt),dt)
        if caching=='fill': s.cache=loc
        return loc
    def asarray(s):
        if s.kind=='array': return s.own
        return s.new(s.file.copy(), s.file.dtype)
    def uncache(s): s.cache=None
    def in_memory(s): return s.kind=='array' or s.cache is not None
def run(seed,kind,dtype0,depth,mmap=True,scaled=False):
    rnd=random.Random(seed)
    base=(np.arange(8).reshape(2,2,2)+1).astype(dtype0)
    if kind=='array':
        img=nib.Nifti1Image(base.copy(),np.eye(4)); m=Model('array',base)
    else:
        fn=f'p_{dtype0}_{int(scaled)}.nii'
        src=nib.Nifti1Image(base,np.eye(4))
        if scaled: src.header.set_slope_inter(2.0,1.0)
        src.to_filename(fn); img=nib.load(fn,mmap=mmap)
        fv=np.asarray(img.dataobj).copy(); m=Model('proxy',base,fv)
    ids={}  # python id -> model loc, keep refs alive
    keep=[]
    last=None; log=[]
    for step in range(depth):
        op=rnd.choice(['fd_fill_f8','fd_fill_f4','fd_unch_f8','fd_unch_f4','asarray','uncache','edit','inmem','hdr'])
        log.append(op)
        if op.startswith('fd'):
            c='fill' if 'fill' in op else 'unchanged'; dt=np.float64 if op.endswith('f8') else np.float32
            r=img.get_fdata(caching=c,dtype=dt); loc=m.get_fdata(c,dt)
        elif op=='asarray': r=np.asarray(img.dataobj); loc=m.asarray()
        elif op=='uncache': img.uncache(); m.uncache(); continue
        elif op=='inmem':
            if img.in_memory!=m.in_memory(): return (seed,kind,dtype0,step,log,'in_memory',img.in_memory)
            continue
        elif op=='hdr':
            img.header.set_slope_inter(3.0,5.0) if kind=='proxy' else None
            img.header['descrip']=b'x'; continue
        elif op=='edit':
            if last is None: continue
            r,loc=last
            if not r.flags.writeable: continue
            r[0,0,0]+=7; m.heap[loc][0][0,0,0]+=7; continue
        keep.append(r)
        # identity check
        pid=id(r)
        if pid in ids:
            if ids[pid]!=loc: return (seed,kind,dtype0,step,log,'identity: impl same obj, model different')
        else:
            if loc in ids.values(): return (seed,kind,dtype0,step,log,'identity: model same loc, impl new obj')
            ids[pid]=loc
        if r.dtype!=m.heap[loc][1] or not np.array_equal(np.asarray(r),m.heap[loc][0]):
            return (seed,kind,dtype0,step,log,'values',np.asarray(r).ravel()[:2].tolist(),m.heap[loc][0].ravel()[:2].tolist(),str(r.dtype),str(m.heap[loc][1]))
        last=(r,loc)
    return None
bad=[]
for kind,dt,mm,sc in [('array','i2',True,False),('array','f4',True,False),('array','f8',True,False),('proxy','i2',True,False),('proxy','f8',True,False),('proxy','f8',False,False),('proxy','i2',True,True),('proxy','f4',True,False)]:
    nb=0
    for seed in range(1500):
        r=run(seed,kind,dt,8,mm,sc)
        if r: 
            nb+=1
            if nb<=2: bad.append(r)
    print(kind,dt,mm,sc,'bad',nb)
for b in bad: print(b)
for f in os.listdir('.'): os.remove(f)
