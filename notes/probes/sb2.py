import numpy as np, nibabel as nib
big=np.arange(2*3*4*4000,dtype='f8').reshape(2,3,4,4000)
nib.save(nib.Nifti1Image(big,np.eye(4)),'a.nii')
img2=nib.load('a.nii'); d=img2.get_fdata(); print(type(d).__name__)
small=nib.Nifti1Image(np.zeros((2,2,2)),np.eye(4))
nib.save(small,'a.nii')
print('saved'); print(img2.get_fdata().sum())
