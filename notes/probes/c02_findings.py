import io, sys, warnings
sys.path.insert(0, '/repo')
import numpy as np


def _rt(klass, arr, out):
    from nibabel.fileholders import FileHolder
    hdr = klass.header_class()
    hdr.set_data_dtype(out)
    img = klass(arr, np.eye(4), header=hdr)
    fm = {k: FileHolder(fileobj=io.BytesIO()) for k in klass.make_file_map()}
    with warnings.catch_warnings():
        warnings.simplefilter('ignore')
        img.to_file_map(fm)
    fm2 = {k: FileHolder(fileobj=io.BytesIO(v.fileobj.getvalue())) for k, v in fm.items()}
    img2 = klass.from_file_map(fm2)
    return np.asarray(img2.dataobj), img2


def S_C02b():
    from nibabel.freesurfer.mghformat import MGHImage
    try:
        back, _ = _rt(MGHImage, np.array([.4, 1e6, -7, 3.3], 'f4').reshape(4, 1, 1), np.int16)
    except Exception:
        return False        # a refusal would be the repair
    return bool(abs(float(back.ravel()[1]) - 1e6) > 1.0)


def S_C02c():
    import nibabel as nib
    a = np.array([1.8371022867298352e-41, -4.4047014629121975e-41, 7.698173243614815e-41], 'f4').reshape(3, 1, 1)
    try:
        back, img2 = _rt(nib.Nifti1Image, a, np.int16)
    except Exception:
        return False
    step = abs(float(img2.dataobj.slope))
    return bool(np.abs(back.ravel().astype('f8') - a.ravel().astype('f8')).max() > 2 * step)


def S_C02d():
    from nibabel.analyze import AnalyzeImage
    try:
        back, _ = _rt(AnalyzeImage, np.array([0., np.inf, -np.inf], 'f4').reshape(3, 1, 1), np.int16)
    except Exception:
        return False
    return bool(np.abs(back).max() > 1)


for f in (S_C02b, S_C02c, S_C02d):
    print(f.__name__, 'PRESENT' if f() else 'absent')
