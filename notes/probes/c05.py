import numpy as np, warnings, random, itertools, traceback
warnings.simplefilter('ignore')
import nibabel as nib
from nibabel.orientations import io_orientation, ornt_transform, apply_orientation, inv_ornt_aff, ornt2axcodes, axcodes2ornt, aff2axcodes
print(nib.__file__)
rng=np.random.default_rng(0); random.seed(0)
ornts=[np.array([[p[i],f[i]] for i in range(3)],float) for p in itertools.permutations(range(3)) for f in itertools.product([1,-1],repeat=3)]
bad=[]
for o in ornts:
    # consistency
    codes=ornt2axcodes(o); 
    if not np.array_equal(axcodes2ornt(codes),o): bad.append(('codes',o.tolist()))
    for trial in range(4):
        shape=tuple(random.randint(1,4) for _ in range(random.randint(3,5)))
        data=np.arange(np.prod(shape)).reshape(shape).astype('i4')
        A=np.eye(4); A[:3,:4]=rng.integers(-5,6,size=(3,4)); 
        if abs(np.linalg.det(A))<1e-6: A[:3,:3]+=np.eye(3)*7
        img=nib.Nifti1Image(data,A); di=(random.choice([None,0,1,2]),)*1
        dims=random.sample([0,1,2],3); img.header.set_dim_info(*dims)
        try:
            new=img.as_reoriented(o)
            nd=np.asarray(new.dataobj)
            # each output voxel: find source by world coordinate: A^-1 newA j
            M=np.linalg.inv(A)@new.affine
            ok=True
            for j in np.ndindex(nd.shape[:3]):
                src=np.rint(M@np.r_[j,1])[:3].astype(int)
                if (src<0).any() or (src>=np.array(shape[:3])).any(): ok=False;break
                if not np.array_equal(nd[j],data[tuple(src)]): ok=False;break
            # dim info follows axes
            nfreq=new.header.get_dim_info()
            exp=tuple(int(o[d,0]) for d in dims)
            if nfreq!=exp: ok=False
            if not ok: bad.append(('reorient',o.tolist(),shape,nfreq,exp))
        except Exception as e: bad.append(('EXC',o.tolist(),traceback.format_exc()[-200:]))
# canonical idempotent & world preserved
for t in range(300):
    shape=tuple(random.randint(1,4) for _ in range(3)); data=rng.normal(size=shape)
    o=random.choice(ornts); R=np.zeros((3,3)); 
    for i in range(3): R[int(o[i,0]),i]=o[i,1]
    A=np.eye(4); A[:3,:3]=(R+rng.normal(size=(3,3))*0.15)@np.diag(rng.uniform(0.5,3,3)); A[:3,3]=rng.normal(size=3)*50
    img=nib.Nifti1Image(data,A)
    c1=nib.as_closest_canonical(img); c2=nib.as_closest_canonical(c1)
    if not (np.array_equal(np.asarray(c1.dataobj),np.asarray(c2.dataobj)) and np.allclose(c1.affine,c2.affine) and aff2axcodes(c1.affine)==('R','A','S')): bad.append(('canon',A.tolist()))
print(len(bad))
for b in bad[:6]: print(b)
