import subprocess, json, random, os, sys, tempfile, shutil
from concurrent.futures import ThreadPoolExecutor
random.seed(0)
def gen():
    fam=random.choice(['nii','mgh'])
    names=['a.nii','b.nii','a.nii.gz'] if fam=='nii' else ['a.mgh','b.mgh','a.mgz']
    h=[['mk',names[0],[2,3,4],1],['mk',names[1],[2,2,2] if random.random()<0.5 else [2,3,4],2]]
    handles=[]
    for i in range(random.randint(2,6)):
        c=random.random()
        if c<0.3 or not handles:
            hd='h%d'%len(handles); handles.append(hd); existing=[o[1] for o in h if o[0]=='mk']+[o[2] for o in h if o[0]=='save']
            h.append(['load',hd,random.choice(existing),random.choice([True,False])])
        elif c<0.5: h.append(['fdata',random.choice(handles)])
        elif c<0.6: h.append(['uncache',random.choice(handles)])
        elif c<0.7: h.append(['edit',random.choice(handles)])
        else: h.append(['save',random.choice(handles),random.choice(names)])
    return h
def run(h):
    wd=tempfile.mkdtemp(dir='.')
    env=dict(os.environ,PYTHONPATH=os.environ.get('TARGET','/repo'))
    p=subprocess.run(['/venv/bin/python','/tmp/probe/c09_child.py',json.dumps(h),wd],capture_output=True,text=True,env=env,timeout=120)
    shutil.rmtree(wd,ignore_errors=True)
    out=p.stdout
    status='ok' if p.returncode==0 and 'DONE' in out and 'DIFF' not in out else ('crash%d'%p.returncode if p.returncode<0 or p.returncode>128 else ('DIFF' if 'DIFF' in out else 'exc'))
    return status,h,out.splitlines()[-3:],p.stderr[-300:]
hs=[gen() for _ in range(int(sys.argv[1]))]
from collections import Counter
with ThreadPoolExecutor(12) as ex: res=list(ex.map(run,hs))
print(Counter(r[0] for r in res))
shown=Counter()
for r in res:
    if r[0]!='ok':
        shown[r[0]]+=1
        if shown[r[0]]<=4: print(r[0], json.dumps(r[1][2:]), r[2][-2:], r[3][-150:].replace('\n',' | '))
