import numpy as np, nibabel as nib, sys
a=np.arange(2*3*4*500,dtype='i2').reshape(2,3,4,500)
ext=sys.argv[1]
nib.save(nib.Nifti1Image(a,np.eye(4)) if 'mgh' not in ext else nib.MGHImage(a.astype('f4'),np.eye(4)),'a'+ext)
img=nib.load('a'+ext)
nib.save(img,'a'+ext)
j=nib.load('a'+ext)
print('ok', np.array_equal(np.asarray(j.dataobj),a))
