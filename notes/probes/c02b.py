import numpy as np, warnings, traceback
import nibabel as nib
cases=[(np.array([np.nan,np.inf,-np.inf,-34.56725311279297],'f4'),np.int64),(np.array([np.nan,-69.09441375732422],'f4'),np.int32),
       (np.array([1.8371022867298352e-41, -4.4047014629121975e-41, 7.698173243614815e-41],'f4'),np.int16)]
for a,out in cases:
    a=a.reshape(-1,1,1)
    with warnings.catch_warnings():
        warnings.simplefilter('error',RuntimeWarning)
        try:
            img=nib.Nifti1Image(a,np.eye(4)); img.set_data_dtype(out); raw=img.to_bytes(); print('no warning')
        except RuntimeWarning as e:
            tb=traceback.extract_tb(e.__traceback__); print('WARN at', [(f.filename.split('/')[-1],f.lineno,f.name) for f in tb[-3:]])
    with warnings.catch_warnings():
        warnings.simplefilter('ignore')
        img=nib.Nifti1Image(a,np.eye(4)); img.set_data_dtype(out); j=nib.Nifti1Image.from_bytes(img.to_bytes())
        print(a.ravel(), '->', np.asarray(j.dataobj).ravel(), 'slope',j.dataobj.slope,'inter',j.dataobj.inter,'raw',j.dataobj.get_unscaled().ravel())
