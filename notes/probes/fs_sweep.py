import numpy as np, io, itertools, sys
from nibabel.fileslice import fileslice, fill_slicer, slice2len, predict_shape
bad=0; tot=0; ex=[]
class Rec(io.BytesIO):
    def seek(s,o,w=0):
        assert o>=0; return super().seek(o,w)
for n in range(0,6):
    a=np.arange(n,dtype='i2')
    f=Rec(a.tobytes())
    rng=[None]+list(range(-n-2,n+3))
    for st in rng:
        for sp in rng:
            for step in [None,-3,-2,-1,1,2,3]:
                s=slice(st,sp,step)
                tot+=1
                try:
                    r=fileslice(f,(s,),(n,),a.dtype)
                    ok = r.shape==a[s].shape and (r==a[s]).all() and slice2len(s,n)==len(a[s])
                except Exception as e:
                    ok=False; r=repr(e)
                if not ok:
                    bad+=1
                    if len(ex)<10: ex.append((n,s,a[s],r))
print(tot,bad)
for e in ex: print(e)
# 2-D sweep
bad2=0;tot2=0
import random
random.seed(0)
for trial in range(20000):
    shape=tuple(random.randint(0,4) for _ in range(random.randint(1,3)))
    a=np.arange(int(np.prod(shape)),dtype='i4').reshape(shape)
    idx=[]
    for n in shape:
        k=random.random()
        if k<0.2 and n>0: idx.append(random.randint(-n,n-1))
        else:
            c=[None]+list(range(-n-2,n+3))
            idx.append(slice(random.choice(c),random.choice(c),random.choice([None,-3,-2,-1,1,2,3])))
    idx=tuple(idx)
    for order in 'CF':
        f=Rec(b'\0'*3+a.tobytes(order))
        tot2+=1
        try:
            r=fileslice(f,idx,shape,a.dtype,3,order)
            ok=r.shape==a[idx].shape and (r==a[idx]).all()
        except Exception as e:
            ok=False; r=repr(e)
        if not ok:
            bad2+=1
            if bad2<5: print(shape,idx,order,r)
print(tot2,bad2)
