# Synthesise a 3-frame ECAT file from the single-frame fixture (feasibility of the C03 generator)
import numpy as np, nibabel as nib, warnings, io, os, glob
warnings.simplefilter('ignore')
from nibabel.ecat import EcatImage, EcatHeader
p=glob.glob('/repo/nibabel/**/tinypet.v',recursive=True)[0]
raw=open(p,'rb').read()
img=EcatImage.load(p); ml=img.get_mlist()
sub=raw[1024:1536]; data=raw[1536:1536+600]
nfr=3
h2=EcatHeader(raw[:512]); h2['num_frames']=nfr; main=h2.binaryblock
dirblk=np.zeros((128,),dtype='>i4').reshape(32,4)
dirblk[0]=[31-nfr,2,0,nfr]
cur=3; frames=b''; oid=int(ml[0][0])
for i in range(nfr):
    fid=(oid & ~0x1FF) | (i+1)
    d=(np.frombuffer(data,'>i2')+100*i).astype('>i2').tobytes()
    dirblk[i+1]=[fid,cur,cur+2,1]
    frames+=sub+d+b'\0'*(1024-len(d)); cur+=3
open('multi.v','wb').write(main+dirblk.tobytes()+frames)
m=EcatImage.load('multi.v'); full=np.asarray(m.dataobj); print(m.shape)
for sl in [np.s_[...,1:], np.s_[...,::-1], np.s_[:,:,:,1], np.s_[...,0:2]]:
    try: r=m.dataobj[sl]; print(sl[-1], np.array_equal(r,full[sl]))
    except Exception as e: print(sl[-1],'EXC',repr(e)[:60])
os.remove('multi.v')
