import numpy as np, warnings, random, io, traceback, itertools
warnings.simplefilter('ignore')
import nibabel as nib
from nibabel.freesurfer import MGHImage
from nibabel.eulerangles import euler2mat
rng=np.random.default_rng(0); random.seed(0)
def rots():
    out=[]
    for ax_ in itertools.product([0,np.pi/2,np.pi,-np.pi/2],repeat=3): out.append(euler2mat(*ax_))
    for _ in range(200): out.append(euler2mat(*rng.uniform(-np.pi,np.pi,3)))
    # 180 about diagonals
    for v in [(1,1,0),(1,0,1),(0,1,1),(1,1,1),(1,-1,0)]:
        v=np.array(v,float); v/=np.linalg.norm(v); out.append(2*np.outer(v,v)-np.eye(3))
    return out
bad=[]; n=0
data=np.zeros((3,4,5),'i2')
for R in rots():
  for refl in (1,-1):
    z=10.0**rng.uniform(-3,3,3) if random.random()<0.3 else rng.uniform(0.5,3,3)
    A=np.eye(4); A[:3,:3]=R@np.diag(z)@np.diag([1,1,refl]); A[:3,3]=rng.normal(size=3)*10.0**random.randint(0,5)
    n+=1
    # NIfTI-1 sform exact f32
    for K in (nib.Nifti1Image,nib.Nifti2Image):
        j=K.from_bytes(K(data,A).to_bytes())
        exp=A.astype('f4').astype('f8') if K is nib.Nifti1Image else A
        e2=exp.copy(); 
        if not np.array_equal(j.affine,exp): bad.append((K.__name__,'sform',np.abs(j.affine-exp).max()))
        # qform
        h=K.header_class(); 
        try:
            h.set_qform(A,1); Q=h.get_qform()
            tol=(8*np.finfo('f4').eps if K is nib.Nifti1Image else 64*np.finfo('f8').eps)*np.abs(A).max()*4
            if np.abs(Q-A).max()>tol: bad.append((K.__name__,'qform',np.abs(Q-A).max(),tol,refl))
        except Exception as e: bad.append((K.__name__,'qform EXC',repr(e)[:80]))
    j=MGHImage.from_bytes(MGHImage(data.astype('f4'),A).to_bytes())
    rel=np.abs(j.affine-A).max()/np.abs(A).max()
    if rel>4*np.finfo('f4').eps*8: bad.append(('MGH',rel))
print(n,len(bad))
from collections import Counter
print(Counter(b[:2] if b[0]!='MGH' else ('MGH',) for b in bad))
for b in bad[:8]: print(b)
