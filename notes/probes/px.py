import numpy as np, io, warnings, traceback, random, os
warnings.simplefilter('ignore')
import nibabel as nib
print(nib.__file__)
random.seed(0)
D='/repo/nibabel/tests/data/'
files=['example4d.nii.gz','minc1_4d.mnc','example4d+orig.HEAD','scaled+tlrc.HEAD','phantom_EPI_asc_CLEAR_2_1.PAR','phantom_varscale.PAR','test.mgz','example_nifti2.nii.gz','../../ecat/tests/data/tinypet.v']
bad=[];n=0
def rand_index(shape):
    idx=[]
    for L in shape:
        r=random.random()
        if r<0.25 and L>0: idx.append(random.randint(-L,L-1))
        elif r<0.35: idx.append(slice(None))
        else:
            c=[None]+list(range(-L-2,L+3))
            idx.append(slice(random.choice(c),random.choice(c),random.choice([None,-3,-2,-1,1,2,3])))
    k=random.randint(0,len(idx));
    if random.random()<0.3: idx=idx[:k]
    if random.random()<0.3: idx.insert(random.randint(0,len(idx)),None)
    if random.random()<0.2 and len(idx)<len(shape)+1: idx.insert(random.randint(0,len(idx)),Ellipsis)
    return tuple(idx)
for f in files:
    p=D+f
    if not os.path.exists(p): print('missing',f); continue
    try: img=nib.load(p)
    except Exception as e: print('load fail',f,repr(e)[:80]); continue
    full=np.asarray(img.dataobj)
    fb=0
    for t in range(400):
        ix=rand_index(full.shape); n+=1
        try: exp=full[ix]
        except Exception: continue
        try:
            got=img.dataobj[ix]
            ok=got.shape==exp.shape and np.array_equal(got,exp,equal_nan=True)
        except Exception as e:
            ok=False; got=repr(e)[:100]
        if not ok:
            fb+=1
            if fb<=3: bad.append((f,full.shape,ix,got if isinstance(got,str) else got.shape, exp.shape))
    print(f, type(img.dataobj).__name__, full.shape, 'bad',fb)
for b in bad: print(b)
