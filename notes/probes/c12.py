import numpy as np, warnings, random, itertools, traceback, os, io, gzip, bz2, pathlib
warnings.simplefilter('ignore')
import nibabel as nib
from nibabel.freesurfer import MGHImage
print(nib.__file__)
rng=np.random.default_rng(0); random.seed(0)
data=np.arange(24,dtype='i2').reshape(2,3,4)
def clean():
    for f in os.listdir('.'):
        if os.path.isfile(f): os.remove(f)
        else:
            for g in os.listdir(f): os.remove(os.path.join(f,g))
            os.rmdir(f)
def case(s,mode): return s.lower() if mode=='l' else s.upper() if mode=='u' else ''.join(c.upper() if i%2 else c.lower() for i,c in enumerate(s))
classes={nib.Nifti1Image:['.nii'],nib.Nifti2Image:['.nii'],nib.Nifti1Pair:['.img','.hdr'],nib.AnalyzeImage:['.img','.hdr'],nib.Spm99AnalyzeImage:['.img','.hdr'],MGHImage:['.mgh','.mgz']}
bad=[]
for K,exts in classes.items():
  for ext in exts:
    for suf in (['','.gz','.bz2','.zst'] if ext!='.mgz' else ['']):
      for cm in 'lum':
        for root in ['img','dir.with.dots/im g','a.b.c']:
            clean()
            if '/' in root: os.makedirs(os.path.dirname(root),exist_ok=True)
            name=root+case(ext,cm)+case(suf,cm)
            d=data.astype('f4') if K is MGHImage else data
            img=K(d,np.diag([2.,3,4,1]))
            try:
                img.to_filename(name if random.random()<0.5 else pathlib.Path(name))
                listing=sorted(os.path.join(dp,f).lstrip('./') for dp,_,fs in os.walk('.') for f in fs)
                named_written = name in listing
                j=nib.load(name)
                ok = named_written and type(j) is K or (type(j) in (nib.Nifti1Image,nib.Nifti1Pair,nib.AnalyzeImage,nib.Spm99AnalyzeImage,nib.Spm2AnalyzeImage,nib.Nifti2Image,nib.Nifti2Pair) and named_written)
                ok = ok and np.array_equal(np.asarray(j.dataobj),d)
                if not ok: bad.append((K.__name__,name,listing,type(j).__name__))
            except Exception as e:
                listing=sorted(os.path.join(dp,f).lstrip('./') for dp,_,fs in os.walk('.') for f in fs)
                bad.append((K.__name__,name,listing,'EXC '+repr(e)[:90]))
clean()
print(len(bad))
from collections import Counter
print(Counter((b[0], 'mixed' if b[1]!=b[1].lower() and b[1]!=b[1].upper() and not b[1].startswith('dir') else 'other', b[3][:25]) for b in bad))
for b in bad:
    nm=b[1].split("/")[-1]
    if nm==nm.lower() or nm==nm.upper() or b[0]=="MGHImage": print(b)
# routes equal
for K in (nib.Nifti1Image,nib.Nifti2Image,MGHImage):
    d=data.astype('f4') if K is MGHImage else data
    img=K(d,np.diag([2.,3,4,1])); b=img.to_bytes(); s=io.BytesIO(); img.to_stream(s)
    ext='.mgh' if K is MGHImage else '.nii'
    img.to_filename('r'+ext); img.to_filename('r2'+ext+'.gz' if K is not MGHImage else 'r2.mgz')
    f=open('r'+ext,'rb').read(); g=gzip.open('r2'+ext+'.gz' if K is not MGHImage else 'r2.mgz').read()
    print(K.__name__, b==s.getvalue()==f==g)
clean()
