import numpy as np, io, threading, warnings
warnings.simplefilter('ignore')
from nibabel.arrayproxy import ArrayProxy
from nibabel.fileslice import calc_slicedefs
ev=[]
class Lk:
    def __init__(s): s.l=threading.RLock(); s.depth=0
    def __enter__(s): s.l.acquire(); s.depth+=1; ev.append(('acq',s.depth)); return s
    def __exit__(s,*a): ev.append(('rel',s.depth)); s.depth-=1; s.l.release(); return False
    def acquire(s,*a,**k): r=s.l.acquire(*a,**k); s.depth+=1; ev.append(('acq',s.depth)); return r
    def release(s): ev.append(('rel',s.depth)); s.depth-=1; s.l.release()
class F(io.BytesIO):
    lk=None
    def seek(s,o,w=0): ev.append(('seek',o,F.lk.depth)); return super().seek(o,w)
    def read(s,n=-1): ev.append(('read',n,F.lk.depth)); return super().read(n)
    def readinto(s,b): ev.append(('readinto',len(b),F.lk.depth)); return super().readinto(b)
shape=(4,5,6); a=np.arange(120,dtype='i2').reshape(shape)
f=F(b'\0'*16+a.tobytes('F'))
p=ArrayProxy(f,(shape,a.dtype,16,1.0,0.0)); lk=Lk(); p._lock=lk; F.lk=lk
for ix in [(), (slice(None),slice(None),2), (1,slice(None,None,2),slice(1,4)), (slice(None),3)]:
    ev.clear(); r=p[ix] if ix!=() else np.asarray(p)
    ok=np.array_equal(r,a[ix])
    unlocked=[e for e in ev if e[0] in('seek','read','readinto') and e[2]==0]
    print(ix, ok, 'events',len(ev), 'unlocked io:',unlocked[:3], ev[:6])
c=p.copy(); print('copy shares lock', c._lock is lk)
