import numpy as np, random, warnings, traceback, sys
warnings.simplefilter('ignore')
from nibabel.streamlines.array_sequence import ArraySequence, concatenate
import nibabel; print(nibabel.__file__)
# list model: cells with ids; seq = list of cell ids; cells: id -> np array
class M:
    def __init__(s): s.cells={}; s.n=0
    def new(s,a): s.n+=1; s.cells[s.n]=np.array(a,dtype=float); return s.n
def run(seed, depth):
    rnd=random.Random(seed); m=M()
    def elem(): return np.full((rnd.randint(1,3),2), float(rnd.randint(1,9)))
    init=[elem() for _ in range(rnd.randint(0,3))]
    seqs=[ArraySequence(init)]; mods=[[m.new(e) for e in init]]
    log=[]
    for step in range(depth):
        i=rnd.randrange(len(seqs)); s=seqs[i]; ms=mods[i]
        op=rnd.choice(['append','extend','slice','list','setint','iadd','add','copy','setslice','mask','viewctor'])
        try:
            if op=='append': e=elem(); s.append(e); ms.append(m.new(e))
            elif op=='extend': es=[elem() for _ in range(rnd.randint(0,2))]; s.extend(es); ms.extend(m.new(e) for e in es)
            elif op=='slice':
                L=len(ms); c=[None]+list(range(-L-1,L+2)); sl=slice(rnd.choice(c),rnd.choice(c),rnd.choice([None,1,2,-1,-2]))
                seqs.append(s[sl]); mods.append(ms[sl]); op+=str(sl)
            elif op=='list':
                if not ms: continue
                idx=[rnd.randrange(len(ms)) for _ in range(rnd.randint(1,3))]; seqs.append(s[idx]); mods.append([ms[k] for k in idx]); op+=str(idx)
            elif op=='mask':
                if not ms: continue
                mk=np.array([rnd.random()<0.5 for _ in ms]); seqs.append(s[mk]); mods.append([c for c,b in zip(ms,mk) if b])
            elif op=='viewctor': seqs.append(ArraySequence(s)); mods.append(list(ms))
            elif op=='setint':
                if not ms: continue
                k=rnd.randrange(len(ms)); v=float(rnd.randint(10,19)); s[k]=v; m.cells[ms[k]][:]=v
            elif op=='setslice':
                if not ms: continue
                v=float(rnd.randint(20,29)); s[::2]=v
                for c in ms[::2]: m.cells[c][:]=v
            elif op=='iadd':
                if not ms: continue
                s+=100
                for c in dict.fromkeys(ms): m.cells[c]+=100   # each distinct cell once? numpy applies per element occurrence
            elif op=='add':
                if not ms: continue
                seqs.append(s+1); mods.append([m.new(m.cells[c]+1) for c in ms])
            elif op=='copy': seqs.append(s.copy()); mods.append([m.new(m.cells[c]) for c in ms])
        except Exception as e:
            return (seed,step,op,'EXC',repr(e)[:120],log)
        log.append((i,op))
        for k,(sq,mq) in enumerate(zip(seqs,mods)):
            got=[np.asarray(x) for x in sq]; exp=[m.cells[c] for c in mq]
            if len(got)!=len(exp) or any(g.shape!=e.shape or not np.array_equal(g,e) for g,e in zip(got,exp)):
                return (seed,step,op,'DIFF seq',k,[g[:,0].tolist() for g in got],[e[:,0].tolist() for e in exp],log)
    return None
bad=[]
for seed in range(3000):
    r=run(seed,8)
    if r: bad.append(r)
print(len(bad))
from collections import Counter
print(Counter((b[2].split('slice')[0].split('[')[0],b[3]) for b in bad))
for b in bad[:6]: print(b)
