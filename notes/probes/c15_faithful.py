# A capacity-aware reference model of ArraySequence mirroring the code as it is (bugs included).
import numpy as np, random, warnings, sys, math
warnings.simplefilter('ignore')
from nibabel.streamlines.array_sequence import ArraySequence
import nibabel; print(nibabel.__file__)
FIXED = 'scratch' in nibabel.__file__
class Buf:
    n=0
    def __init__(s,rows): Buf.n+=1; s.id=Buf.n; s.rows=list(rows)   # rows: list of floats (one value per row; common shape (2,))
class MSeq:
    def __init__(s,bufsize): s.buf=Buf([]); s.offs=[]; s.lens=[]; s.view=False; s.bufsize=bufsize
    def rows_per_buf(s): return max(1, int(s.bufsize*1024*1024)//(2*8))
    def next_offset(s):
        if not s.offs: return 0
        i=max(range(len(s.offs)),key=lambda k:(s.offs[k],-k))   # np.argmax -> first max
        i=s.offs.index(max(s.offs)); return s.offs[i]+s.lens[i]
    def items(s): return [s.buf.rows[o:o+l] for o,l in zip(s.offs,s.lens)]
def shared(ms,allseqs): return sum(1 for x in allseqs if x.buf is ms.buf)>1
def resize_to(ms,n_rows,allseqs):
    rpb=ms.rows_per_buf(); ext=int(math.ceil(n_rows/rpb)*rpb)
    if len(ms.buf.rows)==0 and True:
        # self._data.size == 0 -> new empty array (np.empty) : new buffer object
        if len(ms.buf.rows)==0: ms.buf=Buf([None]*ext); return
    if shared(ms,allseqs): ms.buf=Buf(list(ms.buf.rows))   # copy, then resize
    ms.buf.rows=(ms.buf.rows+[0.0]*ext)[:ext] if ext>=len(ms.buf.rows) else ms.buf.rows[:ext]
def m_append_many(ms,elems,allseqs,known_len=True):
    elems=[e for e in elems]
    if known_len:
        if len(elems)==0: return
        n_el=sum(len(e) for e in elems)
        offs=list(ms.offs); lens=list(ms.lens); nxt=ms.next_offset()
        if len(ms.buf.rows) < nxt+n_el or True:
            resize_to(ms,nxt+n_el,allseqs)     # extend always calls _resize_data_to
    else:
        offs=list(ms.offs); lens=list(ms.lens); nxt=ms.next_offset()
    for e in elems:
        if len(e)==0: continue
        req=nxt+len(e)
        if len(ms.buf.rows)<req: resize_to(ms,req,allseqs)
        ms.buf.rows[nxt:req]=list(e); offs.append(nxt); lens.append(len(e)); nxt=req
    ms.offs=offs; ms.lens=lens
    # finalize: shrink_data (refcheck=False, in place on the shared object)
    ms.buf.rows=ms.buf.rows[:ms.next_offset()] if ms.next_offset()<=len(ms.buf.rows) else ms.buf.rows
def run(seed,depth,bufsize):
    rnd=random.Random(seed)
    def elem(): return [float(rnd.randint(1,9))]*rnd.randint(1,3)
    def arr(e): return np.array([[v,v] for v in e],dtype=float).reshape(len(e),2)
    init=[elem() for _ in range(rnd.randint(0,3))]
    s0=ArraySequence([arr(e) for e in init],buffer_size=bufsize)
    m0=MSeq(bufsize); allm=[m0]; m_append_many(m0,init,allm)
    seqs=[s0]; log=[]
    for step in range(depth):
        i=rnd.randrange(len(seqs)); s=seqs[i]; ms=allm[i]
        op=rnd.choice(['extend','slice','list','setint','viewctor','copy','extend'])
        try:
            if op=='extend':
                es=[elem() for _ in range(rnd.randint(0,2))]; s.extend([arr(e) for e in es]); m_append_many(ms,es,allm); op+=str([len(e) for e in es])
            elif op=='slice':
                L=len(ms.offs); c=[None]+list(range(-L-1,L+2)); sl=slice(rnd.choice(c),rnd.choice(c),rnd.choice([None,1,2,-1]))
                seqs.append(s[sl]); n=MSeq(bufsize); n.buf=ms.buf; n.offs=ms.offs[sl]; n.lens=ms.lens[sl]; n.view=True; allm.append(n); op+=str(sl)
            elif op=='list':
                if not ms.offs: continue
                idx=[rnd.randrange(len(ms.offs)) for _ in range(rnd.randint(1,3))]
                seqs.append(s[idx]); n=MSeq(bufsize); n.buf=ms.buf; n.offs=[ms.offs[k] for k in idx]; n.lens=[ms.lens[k] for k in idx]; n.view=True; allm.append(n); op+=str(idx)
            elif op=='viewctor':
                seqs.append(ArraySequence(s)); n=MSeq(bufsize); n.buf=ms.buf; n.offs=list(ms.offs); n.lens=list(ms.lens); n.view=True; allm.append(n)
            elif op=='copy':
                if not FIXED and len(ms.offs)==0 and False: continue
                seqs.append(s.copy()); n=MSeq(bufsize); it=ms.items(); n.buf=Buf([v for e in it for v in e]); n.lens=list(ms.lens); n.offs=[sum(ms.lens[:k]) for k in range(len(ms.lens))]; allm.append(n)
            elif op=='setint':
                if not ms.offs: continue
                k=rnd.randrange(len(ms.offs)); v=float(rnd.randint(10,19)); s[k]=v
                for r in range(ms.offs[k],ms.offs[k]+ms.lens[k]): ms.buf.rows[r]=v
        except Exception as e:
            return (seed,step,op,'EXC',repr(e)[:100],log)
        log.append((i,op))
        for k,(sq,mq) in enumerate(zip(seqs,allm)):
            got=[np.asarray(x)[:,0].tolist() for x in sq]; exp=mq.items()
            if got!=exp: return (seed,step,op,'DIFF seq',k,got,exp,log)
        # sharing
        for a in range(len(seqs)):
            for b in range(a+1,len(seqs)):
                if (seqs[a]._data is seqs[b]._data)!=(allm[a].buf is allm[b].buf): return (seed,step,op,'SHARE',a,b,seqs[a]._data is seqs[b]._data,log)
    return None
bad=[]
for bs in (1e-9,4):
    nb=0
    for seed in range(1500):
        r=run(seed,7,bs)
        if r:
            nb+=1
            if nb<=3: bad.append((bs,)+r)
    print('bufsize',bs,'bad',nb)
for b in bad: print(b)
