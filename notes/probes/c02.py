import numpy as np, warnings, random, traceback, io
import nibabel as nib
print(nib.__file__)
rng=np.random.default_rng(0); random.seed(0)
int_types=[np.uint8,np.int8,np.uint16,np.int16,np.uint32,np.int32,np.uint64,np.int64]
def gen():
    kind=random.choice(['const','onesided','wide','tiny','nf32','mixed','ints','allnan','zero','nan0'])
    n=random.randint(1,6)
    fd=random.choice([np.float32,np.float64,np.float16])
    if kind=='const': a=np.full(n, random.choice([16777219.0, 0.1, -3.7, 1e30, 2**53+2., 65504.0, 1e-40, 7.0]))
    elif kind=='onesided': lo=random.choice([0,1,-1,100,-1e5]); a=lo+np.abs(rng.normal(size=n))*10.0**random.randint(-3,6)
    elif kind=='wide': a=rng.normal(size=n)*10.0**rng.integers(-30,30,size=n)
    elif kind=='tiny': a=rng.normal(size=n)*1e-40
    elif kind=='nf32': a=np.array([16777217.0,16777219.0,33554435.0][:max(1,n%4)])
    elif kind=='mixed': a=rng.normal(size=n)*100; a[0]=np.nan; 
    elif kind=='ints':
        it=random.choice(int_types); ii=np.iinfo(it); a=rng.integers(ii.min,ii.max,size=n,dtype=it,endpoint=True); a[0]=ii.max; 
        if n>1: a[1]=ii.min
        return a,kind
    elif kind=='allnan': a=np.full(n,np.nan)
    elif kind=='zero': a=np.zeros(n)
    elif kind=='nan0': a=np.abs(rng.normal(size=n))*50+10; a[0]=np.nan
    if kind in('mixed',) and n>2: a[1]=np.inf; a[2]=-np.inf
    with np.errstate(all='ignore'): a=a.astype(fd)
    return a,kind
bad=[];n=0; from collections import Counter; cnt=Counter()
for t in range(6000):
    a,kind=gen(); out=random.choice(int_types)
    a=a.reshape(-1,1,1)
    n+=1
    with warnings.catch_warnings():
        warnings.simplefilter('error',RuntimeWarning)
        try:
            img=nib.Nifti1Image(a,np.eye(4),dtype=out) if a.dtype.kind in 'iu' else nib.Nifti1Image(a,np.eye(4)); img.set_data_dtype(out)
            raw=img.to_bytes()
        except Exception as e:
            cnt['refused:'+type(e).__name__]+=1
            if isinstance(e,RuntimeWarning): bad.append((kind,a.dtype.name,np.dtype(out).name,a.ravel().tolist(),'WARN',str(e)[:60]))
            continue
    j=nib.Nifti1Image.from_bytes(raw)
    sl,it_=j.dataobj.slope,j.dataobj.inter
    with np.errstate(all='ignore'):
        back=np.asarray(j.dataobj).astype(np.float64).ravel(); src=a.astype(np.float64).ravel()
    fin=np.isfinite(src)
    if fin.any(): mn,mx=src[fin].min(),src[fin].max()
    else: mn=mx=0.0
    step=abs(float(sl))
    tol=step/2 + (abs(float(it_))+ max(abs(mn),abs(mx)))*2**-22 + step*1e-6
    ok=True; why=''
    if not np.isfinite(back).all(): ok=False; why='nonfinite back'
    else:
        e=np.abs(back[fin]-src[fin])
        if fin.any() and e.max()>tol: ok=False; why=f'err {e.max():g} > tol {tol:g}'
        if (back.max()>mx+step+tol) or (back.min()<min(mn,0)-step-tol if np.isnan(src).any() else back.min()<mn-step-tol): ok=False; why+=' range'
        nanv=back[np.isnan(src)]
        if nanv.size and np.abs(nanv).max()>tol and fin.any(): ok=False; why+=f' nan->{nanv.max():g}'
    cnt['ok' if ok else 'bad']+=1
    if not ok: bad.append((kind,a.dtype.name,np.dtype(out).name,src.tolist(),float(sl),float(it_),back.tolist(),why))
print(n,cnt)
seen=Counter()
for b in bad:
    k=(b[0],b[2])
    seen[k]+=1
    if seen[k]<=1: print(b)
print(seen)
