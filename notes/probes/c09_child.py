import sys, json, os, numpy as np, warnings
warnings.simplefilter('ignore')
import nibabel as nib
from nibabel.freesurfer import MGHImage
hist=json.loads(sys.argv[1]); wd=sys.argv[2]; os.chdir(wd)
rng=np.random.default_rng(1)
# two source files
vals={}
def mk(name,shape,seed):
    a=(np.arange(int(np.prod(shape))).reshape(shape)+seed*1000).astype('f4' if name.endswith(('mgh','mgz')) else 'i2')
    K=MGHImage if name.endswith(('mgh','mgz')) else nib.Nifti1Image
    K(a,np.eye(4)).to_filename(name); return a
imgs={}; model={}   # handle -> expected data (float64)
files={}            # path -> expected data
for op in hist:
    print('OP',json.dumps(op),flush=True)
    k=op[0]
    if k=='mk': files[op[1]]=mk(op[1],tuple(op[2]),op[3]).astype('f8')
    elif k=='load':
        imgs[op[1]]=nib.load(op[2],mmap=op[3]); model[op[1]]=files[op[2]].copy()
    elif k=='fdata':
        d=imgs[op[1]].get_fdata(); 
        if d.shape!=model[op[1]].shape or not np.array_equal(d,model[op[1]]): print('DIFF fdata',op); 
    elif k=='uncache': imgs[op[1]].uncache()
    elif k=='save':
        nib.save(imgs[op[1]],op[2]); files[op[2]]=model[op[1]].copy()
        # other images loaded lazily from this path now see new content (by design) -> update their model if shapes equal else mark stale
        j=nib.load(op[2],mmap=False); d=np.asarray(j.dataobj).astype('f8')
        if d.shape!=files[op[2]].shape or not np.array_equal(d,files[op[2]]): print('DIFF file',op)
    elif k=='edit':
        # array image from fdata
        d=imgs[op[1]].get_fdata(); K=type(imgs[op[1]])
        imgs[op[1]]=K((d+1).astype(imgs[op[1]].get_data_dtype()),imgs[op[1]].affine); model[op[1]]=model[op[1]]+1
print('DONE',flush=True)
