import numpy as np, warnings, random, io, traceback
warnings.simplefilter('ignore')
from nibabel.streamlines import Tractogram, TckFile
from nibabel.streamlines.tck import TckFile
rng=np.random.default_rng(0); random.seed(0)
bad=[]
sl=[rng.normal(size=(random.randint(1,4),3)).astype('f4') for _ in range(5)]
sl[2][0]=[np.finfo('f4').max, -0.0, 1e-45]
t=Tractogram(sl,affine_to_rasmm=np.eye(4))
for pad in list(range(0,60))+list(range(900,1010))+list(range(9890,10010)):
    tf=TckFile(t); tf.header['comment']='x'*pad
    b=io.BytesIO(); tf.save(b); raw=b.getvalue()
    off=int(raw.split(b'file: . ')[1].split(b'\n')[0]); end=raw.index(b'END\n')+4
    if off!=end: bad.append(('offset',pad,off,end)); continue
    for bs in (None,12e-6,24e-6,37e-6,1e-4):
        for lazy in (False,True):
            try:
                b.seek(0)
                r=TckFile.load(b,lazy_load=lazy) if bs is None else TckFile._read
                if bs is None: got=[np.asarray(s) for s in r.streamlines]
                else:
                    hdr=TckFile._read_header(io.BytesIO(raw)); got=list(TckFile._read(io.BytesIO(raw),hdr,buffer_size=bs))
                ok=len(got)==len(sl) and all(g.tobytes()==s.tobytes() for g,s in zip(got,sl))
            except Exception as e: ok=False; got=traceback.format_exc()[-200:]
            if not ok: bad.append(('rt',pad,bs,lazy,str(got)[:200]))
print(len(bad)); 
for b in bad[:5]: print(b)
