import numpy as np, warnings, random, io, traceback, errno
warnings.simplefilter('ignore')
import nibabel as nib
from nibabel.freesurfer import MGHImage
from nibabel.fileholders import FileHolder
from nibabel.cifti2 import Cifti2Image, Cifti2Header, cifti2_axes as ax
print(nib.__file__)
rng=np.random.default_rng(0)
class Failing(io.BytesIO):
    def __init__(s,k): super().__init__(); s.k=k; s.n=0
    def _tick(s):
        s.n+=1
        if s.n==s.k: raise OSError(errno.ENOSPC,'no space')
    def write(s,b): s._tick(); return super().write(b)
    def seek(s,*a): s._tick(); return super().seek(*a)
def snapshot(img):
    d={'hdr':img.header.binaryblock if hasattr(img.header,'binaryblock') else None,'dtype':str(img.get_data_dtype()),'data':np.asarray(img.dataobj).tobytes(),'aff':None if getattr(img,'affine',None) is None else img.affine.tobytes()}
    if hasattr(img,'_dtype_alias'): d['alias']=img._dtype_alias
    if isinstance(img,Cifti2Image): d['hdr']=img.nifti_header.binaryblock; d['xml']=img.header.to_xml()
    return d
def mk(kind):
    a=rng.normal(size=(3,4,2))*100
    if kind=='nii_f2i': i=nib.Nifti1Image(a,np.eye(4)); i.set_data_dtype(np.int16); return i,{}
    if kind=='nii_int': return nib.Nifti1Image(a.astype('i2'),np.eye(4)),{}
    if kind=='nii_override': return nib.Nifti1Image(a.astype('i4'),np.eye(4)),{'dtype':np.uint8}
    if kind=='nii_compat': i=nib.Nifti1Image(a.astype('i4'),np.eye(4)); i.set_data_dtype('compat'); return i,{}
    if kind=='nii_smallest': i=nib.Nifti1Image(np.abs(a).astype('i4'),np.eye(4)); i.set_data_dtype('smallest'); return i,{}
    if kind=='nii2_f2i': i=nib.Nifti2Image(a,np.eye(4)); i.set_data_dtype(np.uint8); return i,{}
    if kind=='pair': i=nib.Nifti1Pair(a,np.eye(4)); i.set_data_dtype(np.int16); return i,{}
    if kind=='spm': i=nib.Spm99AnalyzeImage(a,np.eye(4)); i.set_data_dtype(np.int16); return i,{}
    if kind=='analyze': return nib.AnalyzeImage(a.astype('i2'),np.eye(4)),{}
    if kind=='mgh': return MGHImage(a.astype('f4'),np.eye(4)),{}
    if kind=='cifti':
        h=Cifti2Header.from_axes((ax.ScalarAxis(['a','b','c']),ax.SeriesAxis(0,1,4))); return Cifti2Image(rng.normal(size=(3,4)),h),{}
kinds=['nii_f2i','nii_int','nii_override','nii_compat','nii_smallest','nii2_f2i','pair','spm','analyze','mgh','cifti']
res={}
for kind in kinds:
    img,kw=mk(kind); 
    ref_img,_=mk(kind)
    # clean run count ops
    def fm(k):
        keys=('image','header','mat') if kind in('pair','spm','analyze') else ('image',)
        return {key:FileHolder(fileobj=Failing(k)) for key in keys}
    clean=fm(10**9); before=snapshot(img); img.to_file_map(clean,**kw); after=snapshot(img)
    nops=max(f.fileobj.n for f in clean.values())
    ok_clean=before==after
    bad=[]
    for k in range(1,nops+1):
        img2,kw2=mk(kind); b=snapshot(img2)
        try: img2.to_file_map(fm(k),**kw2); failed=False
        except OSError: failed=True
        except Exception as e: bad.append((k,'other exc',repr(e)[:80])); continue
        a=snapshot(img2)
        diff=[key for key in b if b[key]!=a[key]]
        # retry
        good=fm(10**9); 
        try:
            img2.to_file_map(good,**kw2)
            fresh,kwf=mk(kind); 
        except Exception as e: diff.append('retry exc '+repr(e)[:60])
        if diff: bad.append((k,failed,diff))
    res[kind]=(nops,ok_clean,bad[:3],len(bad))
for k,v in res.items(): print(k,v)
