import ast, sys
src=open(sys.argv[1]).read()
t=ast.parse(src)
for n in ast.walk(t):
    if isinstance(n,(ast.FunctionDef,ast.ClassDef,ast.AsyncFunctionDef,ast.Module)):
        if n.body and isinstance(n.body[0],ast.Expr) and isinstance(getattr(n.body[0],'value',None),ast.Constant) and isinstance(n.body[0].value.value,str):
            n.body=n.body[1:] or [ast.Pass()]
out=ast.unparse(t)
if len(sys.argv)>2:
    names=sys.argv[2:]
    # print only selected top-level or nested defs
    for n in ast.walk(t):
        if isinstance(n,(ast.FunctionDef,ast.ClassDef)) and n.name in names:
            print(ast.unparse(n)); print()
else:
    print(out)
