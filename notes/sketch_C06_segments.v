From Coq Require Import ZArith List Bool Lia.
Import ListNotations.
Open Scope Z_scope.

(* read slicers after fill/positive: ints or positive-step slices *)
Inductive rsl := RInt (k : Z) | RSl (start : Z) (len : nat) (step : Z).
(* an axis: its length and its read slicer *)
Definition axis := (Z * rsl)%type.

Definition idxs (r : rsl) : list Z :=
  match r with
  | RInt k => [k]
  | RSl a m st => map (fun j => a + Z.of_nat j * st) (seq 0 m)
  end.

Definition seg := (Z * nat)%type.
Definition shift (d : Z) (s : seg) : seg := (fst s + d, snd s).
Definition pos1 (s : seg) : list Z := map (fun k => fst s + Z.of_nat k) (seq 0 (snd s)).
Definition positions (l : list seg) : list Z := flat_map pos1 l.

Definition is_full (n : Z) (r : rsl) : bool :=
  match r with RSl a m st => (a =? 0) && (Z.of_nat m =? n) && (st =? 1) | _ => false end.
Definition is_contig (r : rsl) : bool := match r with RSl _ _ st => st =? 1 | _ => false end.

Record st := { af : bool; segs : list seg; stride : Z }.

(* slicers2segments, one axis *)
Definition step_alg (s : st) (ax : axis) : st :=
  let '(n, r) := ax in
  let segs' :=
    match r with
    | RSl a m stp =>
        if af s && is_contig r then
          match segs s with
          | (o, l) :: rest => (o + stride s * a, (l * m)%nat) :: rest
          | [] => []
          end
        else flat_map (fun i => map (shift (stride s * i)) (segs s)) (idxs r)
    | RInt k => map (shift (stride s * k)) (segs s)
    end in
  {| af := af s && is_full n r; segs := segs'; stride := stride s * n |}.

(* reference: no merging *)
Definition step_ref (s : list seg * Z) (ax : axis) : list seg * Z :=
  let '(n, r) := ax in
  (flat_map (fun i => map (shift (snd s * i)) (fst s)) (idxs r), snd s * n).

Definition run_alg (off : Z) (w : nat) (axes : list axis) : st :=
  fold_left step_alg axes {| af := true; segs := [(off, w)]; stride := Z.of_nat w |}.
Definition run_ref (off : Z) (w : nat) (axes : list axis) : list seg * Z :=
  fold_left step_ref axes ([(off, w)], Z.of_nat w).

Lemma pos1_shift d s : pos1 (shift d s) = map (fun p => p + d) (pos1 s).
Proof. unfold pos1, shift; simpl. rewrite map_map. apply map_ext; intros; lia. Qed.

Lemma positions_shift d l : positions (map (shift d) l) = map (fun p => p + d) (positions l).
Proof. unfold positions. induction l as [|s l IH]; simpl; [reflexivity|].
  rewrite map_app, pos1_shift, IH. reflexivity. Qed.

Lemma positions_app a b : positions (a ++ b) = positions a ++ positions b.
Proof. unfold positions. apply flat_map_app. Qed.

Lemma positions_flat_map (c : Z) (L : list Z) l :
  positions (flat_map (fun i => map (shift (c * i)) l) L)
  = flat_map (fun i => map (fun p => p + c * i) (positions l)) L.
Proof. induction L as [|i L IH]; simpl; [reflexivity|].
  rewrite positions_app, positions_shift, IH. reflexivity. Qed.


Lemma seq_shift_n (l n : nat) : seq l n = map (fun x => (l + x)%nat) (seq 0 n).
Proof. revert l. induction n as [|n IH]; intros l; simpl; [reflexivity|].
  f_equal; [lia|]. rewrite (IH (S l)), (IH 1%nat), map_map. apply map_ext; intros; lia. Qed.

Lemma flat_map_seq_S {A} (f : nat -> list A) m :
  flat_map f (seq 1 m) = flat_map (fun j => f (S j)) (seq 0 m).
Proof. rewrite <- seq_shift. induction (seq 0 m) as [|x xs IH]; simpl; [reflexivity|]. now rewrite IH. Qed.

(* a block of l*m consecutive bytes = m consecutive blocks of l bytes *)
Lemma block_split (o : Z) (l m : nat) (a : Z) :
  map (fun k => o + Z.of_nat l * a + Z.of_nat k) (seq 0 (l * m))
  = flat_map (fun j => map (fun k => o + Z.of_nat l * (a + Z.of_nat j) + Z.of_nat k) (seq 0 l)) (seq 0 m).
Proof.
  revert a. induction m as [|m IH]; intros a.
  - rewrite Nat.mul_0_r. reflexivity.
  - replace (l * S m)%nat with (l + l * m)%nat by lia.
    rewrite seq_app, map_app.
    change (seq 0 (S m)) with (0%nat :: seq 1 m). cbn [flat_map].
    f_equal.
    + apply map_ext; intros; lia.
    + rewrite flat_map_seq_S. cbn [Nat.add].
      rewrite (seq_shift_n l), map_map.
      etransitivity; [| etransitivity; [apply (IH (a + 1)) |]].
      * apply map_ext; intros; lia.
      * apply flat_map_ext; intros j. apply map_ext; intros; lia.
Qed.

Lemma flat_map_map {A B C} (f : B -> list C) (g : A -> B) l :
  flat_map f (map g l) = flat_map (fun x => f (g x)) l.
Proof. induction l as [|x l IH]; simpl; [reflexivity|]. now rewrite IH. Qed.

Definition Inv (s : st) (r : list seg * Z) : Prop :=
  stride s = snd r /\ positions (segs s) = positions (fst r) /\
  (af s = true -> exists o l, segs s = [(o, l)] /\ Z.of_nat l = stride s).

Lemma is_full_contig n r : is_full n r = true -> is_contig r = true.
Proof. destruct r as [k|a m stp]; simpl; [discriminate|].
  intros H. apply andb_true_iff in H. tauto. Qed.

Lemma step_inv s r ax : Inv s r -> Inv (step_alg s ax) (step_ref r ax).
Proof.
  intros (Hst & Hpos & Haf). destruct ax as [n rs]. destruct r as [rsegs rstr]. simpl in Hst, Hpos.
  unfold step_alg, step_ref, Inv; cbn [fst snd af segs stride].
  destruct rs as [k | a m stp].
  - (* int *)
    split; [now rewrite Hst|]. split.
    + cbn [idxs flat_map]. rewrite app_nil_r, !positions_shift, Hpos, Hst. reflexivity.
    + rewrite andb_false_r. discriminate.
  - destruct (af s && is_contig (RSl a m stp)) eqn:E.
    + apply andb_true_iff in E. destruct E as [Ea Ec]. simpl in Ec. apply Z.eqb_eq in Ec. subst stp.
      destruct (Haf Ea) as (o & l & Hs & Hl). rewrite Hs in *.
      split; [now rewrite Hst|]. split.
      * rewrite positions_flat_map, <- Hpos, <- Hst.
        unfold positions at 1. cbn [flat_map]. rewrite app_nil_r.
        unfold positions at 1. cbn [flat_map]. rewrite app_nil_r.
        unfold pos1 at 1. cbn [fst snd]. rewrite <- Hl.
        rewrite block_split. cbn [idxs]. rewrite flat_map_map.
        apply flat_map_ext. intros j. unfold pos1; cbn [fst snd]. rewrite map_map.
        apply map_ext. intros; lia.
      * intros Hf. apply andb_true_iff in Hf. destruct Hf as [_ Hf]. simpl in Hf.
        apply andb_true_iff in Hf. destruct Hf as [Hf _]. apply andb_true_iff in Hf.
        destruct Hf as [H0 Hn]. apply Z.eqb_eq in H0, Hn. subst a.
        exists (o + stride s * 0), (l * m)%nat. split; [reflexivity|]. lia.
    + split; [now rewrite Hst|]. split.
      * rewrite !positions_flat_map, Hpos, Hst. reflexivity.
      * intros Hf. apply andb_true_iff in Hf. destruct Hf as [Ha Hf].
        apply is_full_contig in Hf. rewrite Ha, Hf in E. discriminate.
Qed.

Theorem segments_positions off w axes :
  positions (segs (run_alg off w axes)) = positions (fst (run_ref off w axes)).
Proof.
  unfold run_alg, run_ref.
  assert (H: Inv {| af := true; segs := [(off, w)]; stride := Z.of_nat w |} ([(off, w)], Z.of_nat w)).
  { unfold Inv; simpl. repeat split. intros _. now exists off, w. }
  revert H. generalize {| af := true; segs := [(off, w)]; stride := Z.of_nat w |} as s.
  generalize ([(off, w)], Z.of_nat w) as r.
  induction axes as [|ax axes IH]; intros r s H; simpl.
  - apply H.
  - apply IH. now apply step_inv.
Qed.
Print Assumptions segments_positions.

(* sanity: model vs python on a small case: shape (3,4) itemsize 2, slicers (slice(1,3), 2) F order *)
Eval vm_compute in segs (run_alg 10 2 [(3, RSl 1 2 1); (4, RInt 2)]).
Eval vm_compute in segs (run_alg 0 1 [(3, RSl 0 3 1); (4, RSl 1 2 2); (2, RSl 0 2 1)]).

(* ---- the reference enumeration is the F-order list of selected element offsets ---- *)

(* byte offsets (relative to the array start) of the selected elements, first axis fastest *)
Fixpoint offs (axes : list axis) (strd : Z) : list Z :=
  match axes with
  | [] => [0]
  | (n, r) :: rest =>
      flat_map (fun outer => map (fun i => strd * i + outer) (idxs r)) (offs rest (strd * n))
  end.

Lemma map_flat_map {A B C} (g : B -> C) (f : A -> list B) l :
  map g (flat_map f l) = flat_map (fun x => map g (f x)) l.
Proof. induction l as [|x l IH]; simpl; [reflexivity|]. now rewrite map_app, IH. Qed.

Lemma flat_map_flat_map {A B C} (g : B -> list C) (f : A -> list B) l :
  flat_map g (flat_map f l) = flat_map (fun x => flat_map g (f x)) l.
Proof. induction l as [|x l IH]; simpl; [reflexivity|]. now rewrite flat_map_app, IH. Qed.

Lemma ref_positions_gen axes : forall (S : list seg) (strd : Z),
  positions (fst (fold_left step_ref axes (S, strd)))
  = flat_map (fun outer => map (fun p => p + outer) (positions S)) (offs axes strd).
Proof.
  induction axes as [|[n r] rest IH]; intros S strd.
  - simpl. rewrite app_nil_r. rewrite map_ext with (g := fun p => p); [now rewrite map_id | intros; lia].
  - cbn [fold_left]. unfold step_ref at 2. cbn [fst snd]. rewrite IH.
    rewrite positions_flat_map. cbn [offs]. rewrite flat_map_flat_map.
    apply flat_map_ext. intros outer. rewrite map_flat_map, flat_map_map.
    apply flat_map_ext. intros i. rewrite map_map. apply map_ext. intros; lia.
Qed.

Theorem alg_is_F_order off w axes :
  positions (segs (run_alg off w axes))
  = flat_map (fun d => pos1 (off + d, w)) (offs axes (Z.of_nat w)).
Proof.
  rewrite segments_positions. unfold run_ref. rewrite ref_positions_gen.
  apply flat_map_ext. intros d. unfold positions. cbn [flat_map]. rewrite app_nil_r.
  unfold pos1; cbn [fst snd]. rewrite map_map. apply map_ext. intros; lia.
Qed.
Print Assumptions alg_is_F_order.
