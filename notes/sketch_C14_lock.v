From Coq Require Import ZArith List Bool Lia Arith.
Import ListNotations.
Open Scope Z_scope.

(* one locked read: with lock: seek o; read n *)
Definition section := (Z * nat)%type.
Definition sec_positions (s : section) : list Z := map (fun k => fst s + Z.of_nat k) (seq 0 (snd s)).

Inductive stage := Idle | Locked | Sought | ReadDone.
Record thread := { stg : stage; todo : list section; recs : list (list Z) }.
(* any number of threads: a total map from thread ids *)
Record world := { pos : Z; owner : option nat; thr : nat -> thread }.

Definition upd (f : nat -> thread) (t : nat) (x : thread) : nat -> thread :=
  fun u => if Nat.eqb u t then x else f u.

(* one scheduler step for thread t; a blocked or finished thread does nothing *)
Definition step (w : world) (t : nat) : world :=
  let th := thr w t in
  match todo th with
  | [] => w
  | (o, n) :: rest =>
    match stg th with
    | Idle => match owner w with
              | None => {| pos := pos w; owner := Some t;
                           thr := upd (thr w) t {| stg := Locked; todo := todo th; recs := recs th |} |}
              | Some _ => w                       (* blocked on the lock *)
              end
    | Locked => {| pos := o; owner := owner w;
                   thr := upd (thr w) t {| stg := Sought; todo := todo th; recs := recs th |} |}
    | Sought => {| pos := pos w + Z.of_nat n; owner := owner w;
                   thr := upd (thr w) t {| stg := ReadDone; todo := todo th;
                                           recs := recs th ++ [map (fun k => pos w + Z.of_nat k) (seq 0 n)] |} |}
    | ReadDone => {| pos := pos w; owner := None;
                     thr := upd (thr w) t {| stg := Idle; todo := rest; recs := recs th |} |}
    end
  end.

Definition run (w : world) (sched : list nat) : world := fold_left step sched w.

Definition init (p0 : Z) (progs : nat -> list section) : world :=
  {| pos := p0; owner := None; thr := fun t => {| stg := Idle; todo := progs t; recs := [] |} |}.

Definition thr_ok (w : world) (prog : list section) (t : nat) (th : thread) : Prop :=
  exists done, prog = done ++ todo th /\
    match stg th with
    | Idle => owner w <> Some t /\ recs th = map sec_positions done
    | Locked => owner w = Some t /\ recs th = map sec_positions done /\ todo th <> []
    | Sought => owner w = Some t /\ recs th = map sec_positions done /\
                (exists o n rest, todo th = (o, n) :: rest /\ pos w = o)
    | ReadDone => owner w = Some t /\
                (exists s rest, todo th = s :: rest /\ recs th = map sec_positions (done ++ [s]))
    end.

Definition Inv (progs : nat -> list section) (w : world) : Prop :=
  forall t, thr_ok w (progs t) t (thr w t).

Lemma init_inv p0 progs : Inv progs (init p0 progs).
Proof. intros t. exists []. simpl. repeat split. discriminate. Qed.

Lemma step_inv progs w t : Inv progs w -> Inv progs (step w t).
Proof.
  intros H. unfold step.
  destruct (todo (thr w t)) as [|[o n] rest] eqn:Et; [exact H|].
  pose proof (H t) as (done & Hp & Hs).
  destruct (stg (thr w t)) eqn:Es.
  - (* Idle: try to acquire *)
    destruct (owner w) as [ow|] eqn:Eo; [exact H|].
    intros u. unfold upd; cbn [thr owner pos]. destruct (Nat.eqb_spec u t) as [->|Hne].
    + exists done. cbn. rewrite Et in *. destruct Hs as [_ Hr]. repeat split; auto. discriminate.
    + pose proof (H u) as (du & Hpu & Hsu). exists du. split; [exact Hpu|].
      destruct (stg (thr w u)); cbn [owner pos] in *; rewrite ?Eo in *;
        try (destruct Hsu as [Ho _]; discriminate).
      destruct Hsu as [_ Hr]. split; [congruence | exact Hr].
  - (* Locked: seek *)
    destruct Hs as (Ho & Hr & _).
    intros u. unfold upd; cbn [thr owner pos]. destruct (Nat.eqb_spec u t) as [->|Hne].
    + exists done. cbn. rewrite Et in *. repeat split; auto. now exists o, n, rest.
    + pose proof (H u) as (du & Hpu & Hsu). exists du. split; [exact Hpu|].
      destruct (stg (thr w u)); cbn [owner pos] in *;
        try (destruct Hsu as [Hou _]; rewrite Ho in Hou; congruence).
      exact Hsu.
  - (* Sought: read *)
    destruct Hs as (Ho & Hr & (o' & n' & rest' & Ht' & Hpos)).
    rewrite Et in Ht'. injection Ht' as <- <- <-.
    intros u. unfold upd; cbn [thr owner pos]. destruct (Nat.eqb_spec u t) as [->|Hne].
    + exists done. cbn. rewrite Et in *. repeat split; auto.
      exists (o, n), rest. split; [reflexivity|]. rewrite map_app, Hr. cbn. rewrite Hpos. reflexivity.
    + pose proof (H u) as (du & Hpu & Hsu). exists du. split; [exact Hpu|].
      destruct (stg (thr w u)); cbn [owner pos] in *;
        try (destruct Hsu as [Hou _]; rewrite Ho in Hou; congruence).
      exact Hsu.
  - (* ReadDone: release *)
    destruct Hs as (Ho & (s & rest' & Ht' & Hr)).
    rewrite Et in Ht'. injection Ht' as <- <-.
    intros u. unfold upd; cbn [thr owner pos]. destruct (Nat.eqb_spec u t) as [->|Hne].
    + exists (done ++ [(o, n)]). cbn. rewrite Et in Hp. rewrite <- app_assoc. cbn.
      repeat split; auto. discriminate.
    + pose proof (H u) as (du & Hpu & Hsu). exists du. split; [exact Hpu|].
      destruct (stg (thr w u)); cbn [owner pos] in *;
        try (destruct Hsu as [Hou _]; rewrite Ho in Hou; congruence).
      destruct Hsu as [_ Hr']. split; [discriminate | exact Hr'].
Qed.

Lemma run_inv progs sched : forall w, Inv progs w -> Inv progs (run w sched).
Proof. induction sched as [|t sched IH]; intros w H; simpl; [exact H|]. apply IH, step_inv, H. Qed.

(* Every schedule, any number of threads: whatever a thread has read so far is exactly
   what it would have read alone, and a finished thread has read all of it. *)
Theorem reads_correct p0 progs sched t :
  let w := run (init p0 progs) sched in
  todo (thr w t) = [] -> recs (thr w t) = map sec_positions (progs t).
Proof.
  intros w Hd. pose proof (run_inv progs sched _ (init_inv p0 progs) t) as (done & Hp & Hs).
  fold w in Hp, Hs. rewrite Hd, app_nil_r in Hp. subst done.
  destruct (stg (thr w t)).
  - apply Hs.
  - destruct Hs as (_ & _ & Hn). contradiction.
  - destruct Hs as (_ & _ & (o & n & r & Ht & _)). congruence.
  - destruct Hs as (_ & (s & r & Ht & _)). congruence.
Qed.
Print Assumptions reads_correct.

(* without the lock the same reads can mix: two threads, schedule seek0 seek1 read0 *)
Definition step_nolock (w : world) (t : nat) : world :=
  let th := thr w t in
  match todo th with
  | [] => w
  | (o, n) :: rest =>
    match stg th with
    | Idle | Locked => {| pos := o; owner := None;
                   thr := upd (thr w) t {| stg := Sought; todo := todo th; recs := recs th |} |}
    | _ => {| pos := pos w + Z.of_nat n; owner := None;
                   thr := upd (thr w) t {| stg := Idle; todo := rest;
                                           recs := recs th ++ [map (fun k => pos w + Z.of_nat k) (seq 0 n)] |} |}
    end
  end.
Example without_lock_refuted :
  let progs := fun t => match t with O => [(0, 2%nat)] | 1%nat => [(100, 2%nat)] | _ => [] end in
  let w := fold_left step_nolock [0%nat; 1%nat; 0%nat] (init 0 progs) in
  todo (thr w 0%nat) = [] /\ recs (thr w 0%nat) <> map sec_positions (progs 0%nat).
Proof. vm_compute. split; [reflexivity | discriminate]. Qed.
