# /verif/Makefile — `make setup` builds the whole Coq development (full .vo) and the
# extracted model runners from files on disk only (offline).
setup:
	PYTHONPATH=/repo PYTHONHASHSEED=0 /venv/bin/python harness/setup.py
manifest:
	/venv/bin/python harness/mkmanifest.py
clean:
	-cd coq && [ -f Makefile.coq ] && make -f Makefile.coq clean
	rm -rf bin coq/*/ocaml coq/Makefile.coq* coq/_CoqProject .work
.PHONY: setup manifest clean
